"""Running TLC: model checking of MC_* instances, emission of states for replay, batched trace validation."""
from __future__ import annotations

import concurrent.futures as cf
import json
import os
import re
import shutil
import subprocess
import tempfile
import time

from .common import SPEC, NCPU, MachineryError

JAR_CP = '/opt/veriftools/tla/tla2tools.jar:/opt/veriftools/tla/CommunityModules-deps.jar'
_STATS = re.compile(r'(\d+) states generated, (\d+) distinct states found, (\d+) states left on queue')
_SIMSTATS = re.compile(r'The number of states generated: (\d+)')
_COV = re.compile(r'^<(\w+) line (\d+), col \d+ to line \d+, col \d+ of module (\w+)>: (\d+):(\d+)')


class TLCResult:
    def __init__(self, label):
        self.label = label
        self.stdout = ''
        self.generated = 0
        self.distinct = 0
        self.ok = False
        self.error = ''
        self.vp = []          # decoded JSON payloads of "VP{...}" lines
        self.coverage = {}    # action name -> (distinct, total)
        self.wall = 0.0
        self.rc = None
        self.timed_out = False


def scratch_dir(prefix='kernpy_verif_'):
    return tempfile.mkdtemp(prefix=prefix, dir=os.environ.get('VERIF_TMP', '/tmp'))


def _java_cmd(xmx='6g', deque=False):
    cmd = ['java', '-XX:+UseParallelGC', f'-Xmx{xmx}', '-Xss16m']
    if deque:
        cmd.append('-Dtlc2.tool.queue.IStateQueue=StateDeque')
    cmd += ['-cp', JAR_CP, 'tlc2.TLC']
    return cmd


def parse_vp(stdout, tag='VP'):
    """Decodes the emitted lines.  TLC may evaluate a CONSTRAINT more than once per state: identical lines are de-duplicated."""
    out, bad = [], 0
    prefix = '"' + tag + '{'
    seen = set()
    for line in stdout.splitlines():
        if line.startswith(prefix):
            if tag != 'VERDICT':
                if line in seen:
                    continue
                seen.add(line)
            try:
                inner = json.loads(line)
                out.append(json.loads(inner[len(tag):]))
            except Exception:  # noqa
                bad += 1
    return out, bad


def run_tlc(module, cfg=None, *, workers=None, timeout=900, env=None, coverage=False, simulate=None,
            depth=None, seed=None, label=None, xmx='6g', tag='VP', deque=False, allow_error=False, cwd=SPEC):
    """Run TLC on spec/<module>.tla with spec/<cfg>.  Returns a TLCResult; raises MachineryError on crash/timeout
    unless allow_error (an invariant violation is reported through res.ok = False, res.error)."""
    res = TLCResult(label or module)
    meta = scratch_dir('kernpy_tlc_meta_')
    cmd = _java_cmd(xmx, deque) + ['-workers', str(workers or NCPU), '-metadir', meta, '-noGenerateSpecTE']
    if coverage:
        cmd += ['-coverage', '1']
    if simulate:
        cmd += ['-simulate', simulate]
        if depth:
            cmd += ['-depth', str(depth)]
    if seed is not None:
        cmd += ['-seed', str(seed)]
    cmd += ['-config', cfg or (module + '.cfg'), module + '.tla']
    e = dict(os.environ)
    e.pop('JAVA_TOOL_OPTIONS', None)
    if env:
        e.update({k: str(v) for k, v in env.items()})
    t0 = time.time()
    try:
        p = subprocess.run(cmd, cwd=cwd, env=e, stdout=subprocess.PIPE, stderr=subprocess.STDOUT, timeout=timeout,
                           text=True, errors='replace')
        res.stdout = p.stdout
        res.rc = p.returncode
    except subprocess.TimeoutExpired as ex:
        res.stdout = (ex.stdout or b'').decode('utf-8', 'replace') if isinstance(ex.stdout, bytes) else (ex.stdout or '')
        res.timed_out = True
    finally:
        shutil.rmtree(meta, ignore_errors=True)
    res.wall = time.time() - t0
    m = None
    for m in _STATS.finditer(res.stdout):
        pass
    if m:
        res.generated, res.distinct = int(m.group(1)), int(m.group(2))
    else:
        m = _SIMSTATS.search(res.stdout)
        if m:
            res.generated = res.distinct = int(m.group(1))
    for line in res.stdout.splitlines():
        c = _COV.match(line)
        if c and c.group(3) not in ('TLC',):
            res.coverage[c.group(1)] = [int(c.group(4)), int(c.group(5))]
    res.vp, bad = parse_vp(res.stdout, tag)
    errs = [l for l in res.stdout.splitlines() if l.startswith('Error:') or 'is violated' in l or l.startswith('***Parse Error')
            or 'Semantic error' in l]
    res.error = '\n'.join(errs[:8])
    res.ok = (not errs) and not res.timed_out and ('Model checking completed. No error has been found.' in res.stdout
                                                   or (simulate is not None and res.rc in (0, None) and not errs))
    if bad:
        raise MachineryError(f'{res.label}: {bad} emitted lines could not be decoded')
    if res.timed_out and not allow_error:
        raise MachineryError(f'{res.label}: TLC timed out after {timeout}s')
    if not res.ok and not allow_error:
        tail = '\n'.join(res.stdout.splitlines()[-40:])
        raise MachineryError(f'{res.label}: TLC did not complete cleanly:\n{res.error}\n--- tail ---\n{tail}')
    return res


def sany(module, cwd=SPEC):
    p = subprocess.run(['java', '-cp', JAR_CP, 'tla2sany.SANY', module + '.tla'], cwd=cwd, stdout=subprocess.PIPE,
                       stderr=subprocess.STDOUT, text=True)
    ok = p.returncode == 0 and 'error' not in p.stdout.lower().replace('errors: 0', '')
    return ok, p.stdout


# --------------------------------------------------------------------------------------------
# batched trace validation
# --------------------------------------------------------------------------------------------
class TraceVerdict:
    """Outcome of validating one recorded log against a trace specification."""
    __slots__ = ('accepted', 'reached', 'length', 'fails')

    def __init__(self, accepted, reached, length, fails):
        self.accepted = accepted      # every event consumed and no failing clause
        self.reached = reached        # number of events consumed (== length when not blocked)
        self.length = length
        self.fails = fails            # list of [event index (1-based), clause name]

    def __repr__(self):
        return f'TraceVerdict(accepted={self.accepted}, reached={self.reached}/{self.length}, fails={self.fails[:4]})'


def _validate_shard(module, cfg, logs, timeout, xmx, cwd):
    d = scratch_dir('kernpy_trace_')
    try:
        path = os.path.join(d, 'log.json')
        with open(path, 'w', encoding='utf-8') as f:
            json.dump(logs, f, ensure_ascii=True, separators=(',', ':'))
        res = run_tlc(module, cfg, workers=1, timeout=timeout, env={'TRACE_FILE': path}, label=f'{module}[shard]',
                      xmx=xmx, tag='VERDICT', allow_error=True, cwd=cwd)
        if res.timed_out:
            raise MachineryError(f'{module}: trace validation timed out after {timeout}s')
        if not res.vp and ('OutOfMemoryError' in res.stdout or 'insufficient memory' in res.stdout or res.rc in (137, 134, 1) and 'Error:' not in res.stdout):
            # the JVM could not get its memory (a loaded machine): once more, alone
            time.sleep(5)
            res = run_tlc(module, cfg, workers=1, timeout=timeout, env={'TRACE_FILE': path}, label=f'{module}[shard, retried]',
                          xmx=xmx, tag='VERDICT', allow_error=True, cwd=cwd)
        if not res.vp:
            tail = '\n'.join(res.stdout.splitlines()[-30:])
            raise MachineryError(f'{module}: trace validation produced no verdict:\n{res.error}\n{tail}')
        reg = res.vp[-1]['r']
        verdicts = []
        for i, log in enumerate(logs):
            r = reg[i]
            reached = int(r['l']) - 1
            fails = [[int(x[0]), x[1]] for x in r['fails']]
            verdicts.append(TraceVerdict(reached == len(log) and not fails, reached, len(log), fails))
        return verdicts, res
    finally:
        shutil.rmtree(d, ignore_errors=True)


def validate_traces(module, logs, *, cfg=None, shards=None, timeout=900, xmx='3g', cwd=SPEC):
    """Validate recorded logs (list of event lists) against spec/<module>.tla.  One TLC process per shard
    (-workers 1: the acceptance register is a TLCSet register).  Returns (verdicts in input order, [TLCResult])."""
    if not logs:
        return [], []
    n = max(1, min(shards or NCPU, len(logs)))
    idx = [list(range(i, len(logs), n)) for i in range(n)]
    results = [None] * len(logs)
    tlcs = []
    with cf.ThreadPoolExecutor(max_workers=n) as ex:
        futs = {ex.submit(_validate_shard, module, cfg, [logs[j] for j in ix], timeout, xmx, cwd): ix for ix in idx if ix}
        for fu in cf.as_completed(futs):
            verdicts, res = fu.result()
            tlcs.append(res)
            for j, v in zip(futs[fu], verdicts):
                results[j] = v
    return results, tlcs
