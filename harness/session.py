"""Recording sessions of the real kernpy for Trace_Session.tla.

A *document description* is a list of line events produced by a generator (Python or TLC), each carrying the generator's
abstract description of its cells (never anything taken from kernpy):
    {'ev': 'blank'} | {'ev': 'global', 'cell': C} | {'ev': 'header', 'cells': [C..]} | {'ev': 'row', 'cells': [C..]}
    | {'ev': 'surplus', 'cells': [C..]}
    C = {'k': class, 't': code points, ['n': note], ['ns': [note..]], ['bar': barline]}
record_import() feeds the rendered text to kernpy.loads and adds to each event what kernpy built for that line (`obs`),
read through the projection below.  record_call() performs one API call and logs arguments and abstracted result.
"""
from __future__ import annotations

import hashlib
import io
import contextlib

from .common import cps, uncps, MachineryError

SIGKEYS = ('ClefToken', 'KeySignatureToken', 'TimeSignatureToken', 'MeterSymbolToken')
ENC = {'kern': 'normalizedKern', 'ekern': 'eKern', 'bkern': 'bKern', 'bekern': 'bEkern', 'akern': 'agnosticKern',
       'aekern': 'agnosticExtendedKern'}


# ------------------------------------------------------------------------------------------------
# rendering
# ------------------------------------------------------------------------------------------------
def line_text(ev):
    if ev['ev'] == 'blank':
        return ''
    if ev['ev'] == 'global':
        return uncps(ev['cell']['t'])
    return '\t'.join(uncps(c['t']) for c in ev['cells'])


def render(lines, eol='\n', final_eol=True):
    body = eol.join(line_text(e) for e in lines)
    return body + (eol if final_eol else '')


# ------------------------------------------------------------------------------------------------
# projection of real objects
# ------------------------------------------------------------------------------------------------
def positions(doc):
    pos = {}
    for si, st in enumerate(doc.tree.stages):
        for pi, n in enumerate(st):
            pos[n.id] = [si + 1, pi + 1]
    return pos


def ptr(pos, node):
    if node is None:
        return [0, 0]
    return pos.get(node.id, [-1, -1])


def obs_node(pos, n):
    out = ptr(pos, n.parent) + ptr(pos, n.header_node)
    sig = n.last_signature_nodes.nodes if n.last_signature_nodes is not None else {}
    for k in SIGKEYS:
        out += ptr(pos, sig.get(k))
    out += ptr(pos, n.last_spine_operator_node)
    return out


def obs_tok(n):
    t = n.token
    h = n.header_node.token if n.header_node is not None else None
    return [t.category.name, cps(t.encoding), bool(t.hidden), h.spine_id if h is not None else -1,
            cps(h.encoding) if h is not None else []]


def grid_of(text):
    lines = text.split('\n')
    if lines and lines[-1] == '':
        lines = lines[:-1]
    return [[cps(c) for c in ln.split('\t')] for ln in lines]


def spoil_document(doc):
    """A document the API handed out belongs to the caller, who may do to it what it likes: here every token is hidden, the tree is
    cut into pieces and the measure table emptied.  (Used on documents the harness will not look at again: another import of the
    same text, in the same process, must not notice.)"""
    try:
        for st in doc.tree.stages:
            for n in st:
                if n.token is not None:
                    n.token.hidden = True
                n.children.clear()
        doc.measure_start_tree_stages.clear()
        doc.page_bounding_boxes.clear()
    except Exception:  # noqa
        pass


def snapshot(doc):
    """Deep digest of everything reachable from the document plus the shared module-level defaults (C14)."""
    import kernpy as kp
    from kernpy.core import tokens as tk, pitch_models as pm, transposer as tr
    pos = positions(doc)
    h = hashlib.sha1()

    def tokrep(t):
        if t is None:
            return ('None',)
        r = [type(t).__name__, t.category.name, t.encoding, bool(t.hidden)]
        for a in ('spine_id', 'cancelled_at_stage', 'line', 'page_number'):
            if hasattr(t, a):
                r.append((a, getattr(t, a)))
        if hasattr(t, 'pitch_duration_subtokens'):
            r.append([(s.encoding, s.category.name) for s in t.pitch_duration_subtokens])
            r.append([(s.encoding, s.category.name) for s in t.decoration_subtokens])
        if hasattr(t, 'notes_tokens'):
            r.append([tokrep(x) for x in t.notes_tokens])
        if hasattr(t, 'subtokens'):
            r.append([(s.encoding, s.category.name) for s in t.subtokens])
        if hasattr(t, 'bounding_box'):
            r.append(str(t.bounding_box))
        return tuple(map(repr, r))

    for st in doc.tree.stages:
        for n in st:
            rec = (n.stage, tokrep(n.token), tuple(ptr(pos, n.parent)), tuple(tuple(ptr(pos, c)) for c in n.children),
                   tuple(ptr(pos, n.header_node)), tuple(ptr(pos, n.last_spine_operator_node)),
                   tuple((k, tuple(ptr(pos, v))) for k, v in sorted((n.last_signature_nodes.nodes if n.last_signature_nodes else {}).items())))
            h.update(repr(rec).encode('utf-8', 'surrogatepass'))
    h.update(repr((list(doc.measure_start_tree_stages), doc.header_stage,
                   sorted((k, str(v.bounding_box), v.from_measure, v.to_measure) for k, v in doc.page_bounding_boxes.items()),
                   tuple(ptr(pos, doc.tree.root)), len(doc.tree.stages))).encode())
    shared = (sorted(tk.HEADERS), sorted(c.name for c in tk.BEKERN_CATEGORIES), sorted(c.name for c in tk.NON_CORE_CATEGORIES),
              sorted(tk.CORE_HEADERS), sorted(tk.SPINE_OPERATIONS), repr(tk.TokenCategoryHierarchyMapper.hierarchy),
              sorted(pm.Chromas.items()), sorted(tr.Intervals.items()), list(tr.AVAILABLE_INTERVALS),
              [c.name for c in kp.TokenCategory], repr(vars(kp.ExportOptions.default())) if False else '')
    h.update(repr(shared).encode())
    return h.hexdigest()


# ------------------------------------------------------------------------------------------------
# import
# ------------------------------------------------------------------------------------------------
def import_by_route(text):
    """The documented ways of importing a text are equivalent (the specification has one importer): which one a session takes is a
    fixed function of the text - kp.loads, kp.load of a file holding exactly these characters, the Importer class on the string, the
    Importer class on the file."""
    import os
    import tempfile
    import kernpy as kp
    route = sum(map(ord, text[:300])) % 6
    if route in (2, 4):
        d = tempfile.mkdtemp(prefix='kernpy_route_')
        try:
            path = os.path.join(d, 'score.krn')
            try:
                with open(path, 'w', encoding='utf-8', newline='') as f:
                    f.write(text)
            except UnicodeEncodeError:
                return kp.loads(text)
            if route == 2:
                return kp.load(path)
            imp = kp.Importer()
            doc = imp.import_file(path)
            return doc, imp.errors
        finally:
            import shutil
            shutil.rmtree(d, ignore_errors=True)
    if route == 3:
        imp = kp.Importer()
        doc = imp.import_string(text)
        return doc, imp.errors
    return kp.loads(text)


def record_import(lines, eol='\n', final_eol=True):
    """Returns (events, doc or None).  events: the line events with `obs`, followed by an 'end' event."""
    import kernpy as kp
    _ARGS.clear()              # a new session: new argument objects
    sur = [i for i, e in enumerate(lines) if e['ev'] in ('surplus', 'unsupported')]
    events = []
    if sur:
        k = sur[0]
        full = render(lines[:k + 1], eol, final_eol)
        try:
            kp.loads(full)
            raised = False
        except Exception:  # noqa  the property asks for "an exception"
            raised = True
        prefix = lines[:k]
    else:
        prefix = lines
    text = render(prefix, eol, final_eol)
    try:
        doc, errors = import_by_route(text)
    except Exception as ex:  # noqa  well-formed input must import: logged as an observation, judged by the specification
        return [{'ev': 'import_failed', 'exc': type(ex).__name__, 'msg': str(ex)[:200]}], None, text
    pos = positions(doc)
    si = 0
    mst = [m + 1 for m in doc.measure_start_tree_stages]
    for e in prefix:
        ev = dict(e)
        if e['ev'] == 'blank':
            events.append(ev)
            continue
        si += 1
        st = doc.tree.stages[si] if si < len(doc.tree.stages) else []     # fewer stages than lines: an observation, not a crash
        if e['ev'] == 'global':
            ev['obs'] = {'par': ptr(pos, st[0].parent), 'n': len(st), 'text': cps(st[0].token.encoding)} if st else {'par': [0, 0], 'n': 0, 'text': []}
        else:
            ev['obs'] = {'stage': [obs_node(pos, n) for n in st], 'toks': [obs_tok(n) for n in st]}
            if e['ev'] == 'row':
                ev['obs']['mst'] = [m for m in mst if m <= si + 1]
        events.append(ev)
    if sur:
        events.append(dict(lines[sur[0]], obs={'raised': raised}))
    events.append({'ev': 'end', 'snap': snapshot(doc),
                   'obs': {'nstages': len(doc.tree.stages), 'errs': [[x.line, cps(x.encoding)] for x in errors], 'mst': mst,
                           'shape': [len(s) for s in doc.tree.stages],
                           'cancel': [[si + 1, pi + 1, int(getattr(n.token, 'cancelled_at_stage', None) or 0)]
                                      for si, st in enumerate(doc.tree.stages) for pi, n in enumerate(st)
                                      if n.token is not None and n.token.category.name == 'SPINE_OPERATION'],
                           'hstage': int(doc.header_stage or 0),
                           'pages': [[cps(str(k)), v.bounding_box.from_x, v.bounding_box.from_y, v.bounding_box.to_x, v.bounding_box.to_y,
                                      v.from_measure, v.to_measure] for k, v in doc.page_bounding_boxes.items()]}})
    return events, doc, text


# ------------------------------------------------------------------------------------------------
# calls
# ------------------------------------------------------------------------------------------------
def dumps_args(types=None, ids=None, inc=None, exc=None, enc='kern', frm=None, to=None):
    """Log form of a dumps call.  None = option omitted."""
    return {'alltypes': types is None, 'types': [cps(t) for t in (types or [])], 'allids': ids is None, 'ids': list(ids or []),
            'incall': inc is None, 'inc': list(inc or []), 'exc': list(exc or []), 'enc': enc,
            'hasfrom': frm is not None, 'from': frm if frm is not None else 0, 'hasto': to is not None, 'to': to if to is not None else 0}


_ARGS = {}


def _coll(names, form):
    """The collection handed to the API as include / exclude / filter.  Within one recorded session the SAME object is handed in
    whenever the same selection recurs in the same form (a caller keeps its sets): the library must not have changed it."""
    import kernpy as kp
    kind = {0: set, 1: list, 2: tuple}[form % 3]
    key = (tuple(names), form % 3)
    obj = _ARGS.get(key)
    if obj is None:
        obj = _ARGS[key] = kind(kp.TokenCategory[n] for n in names)
    return obj


def real_dumps(doc, a, form=0, explicit_defaults=False):
    import kernpy as kp
    kw = {}
    if not a['alltypes']:
        kw['spine_types'] = [uncps(t) for t in a['types']]
    if not a['allids']:
        kw['spine_ids'] = list(a['ids'])
    if not a['incall']:
        kw['include'] = _coll(a['inc'], form)
    if a['exc'] or form % 2:
        kw['exclude'] = _coll(a['exc'], form // 3)
    if a['enc'] != 'kern' or form % 2:
        kw['encoding'] = getattr(kp.Encoding, ENC[a['enc']])
    if a['hasfrom']:
        kw['from_measure'] = a['from']
    if a['hasto']:
        kw['to_measure'] = a['to']
    if explicit_defaults:
        kw.setdefault('spine_types', sorted(kp.core.tokens.HEADERS))
        kw.setdefault('spine_ids', doc.get_spine_ids())
        kw.setdefault('include', set(kp.TokenCategory))
        kw.setdefault('exclude', set())
        kw.setdefault('encoding', kp.Encoding.normalizedKern)
    # Five routes to the same export (3 and 4 below; the result must not depend on the route): kp.dumps (a new Exporter per call); ONE long-lived
    # Exporter object per document with a new ExportOptions per call (the class API shown in the library's documentation); the same
    # long-lived Exporter with ONE long-lived ExportOptions object that is updated in place between the calls.
    c = export_context(doc)
    c['n'] += 1
    route = int(ROUTES[(form + c['n']) % len(ROUTES)])      # includes consecutive calls through the same long-lived objects
    if route == 0:
        return kp.dumps(doc, **kw)
    from kernpy.core import generic
    okw = dict(kw)
    if 'encoding' in okw:
        okw['kern_type'] = okw.pop('encoding')
    if route == 3:
        # the caller's own ExportOptions: created with its defaults, every option set by attribute assignment afterwards
        options = kp.ExportOptions.default() if c['n'] % 2 else kp.ExportOptions()
        options.token_categories = kp.TokenCategory.valid(include=okw.get('include'), exclude=okw.get('exclude'))
        for k, v in okw.items():
            if k not in ('include', 'exclude'):
                setattr(options, k, v)
    elif route == 4:
        # ... or built in one go by keyword, with the selected categories already computed
        options = kp.ExportOptions(token_categories=kp.TokenCategory.valid(include=okw.get('include'), exclude=okw.get('exclude')),
                                   **{k: v for k, v in okw.items() if k not in ('include', 'exclude')})
    else:
        options = generic.Generic.parse_options_to_ExportOptions(**okw)
    if route == 2:
        if c['options'] is None:
            c['options'] = options
        else:
            for k, v in vars(options).items():
                setattr(c['options'], k, v)
            options = c['options']
    try:
        return c['exporter'].export_string(doc, options)
    finally:
        # the ExportOptions object (and the collections in it) belong to the caller: they are emptied after the call
        for v in list(vars(options).values()):
            if isinstance(v, (set, list, dict)):
                try:
                    v.clear()
                except Exception:  # noqa
                    pass


_CTX = {}
ROUTES = '0122112022101221340314'


def export_context(doc):
    """the long-lived Exporter (and ExportOptions) object that serves a document for the whole recorded session."""
    import kernpy as kp
    c = _CTX.get(id(doc))
    if c is None or c['doc'] is not doc:
        if len(_CTX) > 64:
            _CTX.clear()
        c = _CTX[id(doc)] = {'doc': doc, 'exporter': kp.Exporter(), 'options': None, 'n': 0}
        try:
            c['exporter'].get_spine_types(doc)          # its first use is a query (internally an export of the headers only)
        except Exception:  # noqa
            pass
    return c


_STDOUT = None
_GRAPHN = 0


def run_quiet(f, *a, **k):
    with contextlib.redirect_stdout(io.StringIO()), contextlib.redirect_stderr(io.StringIO()):
        return f(*a, **k)


def record_call(doc, call):
    """`call`: {'op':..., 'args':..., + harness-only keys starting with '_'}.  Returns the logged event."""
    import kernpy as kp
    op = call['op']
    a = call.get('args', {})
    ev = {'ev': 'call', 'op': op, 'args': a}
    for k in ('exact', 'strict', 'ref', 'base', 'role', 'malformed'):
        if k in call:
            ev[k] = call[k]
    form = call.get('_form', 0)

    def cats():
        return None if a['incall'] else _coll(a['inc'], form)

    try:
        if op == 'dumps' or (op == 'same_as' and call['_what'] == 'dumps'):
            ev.setdefault('exact', False)
            ev.setdefault('strict', True)
            try:
                out = run_quiet(real_dumps, doc, a, form, call.get('_explicit', False))
                ev['res'] = {'ok': True, 'grid': grid_of(out), 'exc': ''}
            except Exception as ex:  # noqa
                # 'rejected with ValueError': a subclass of ValueError IS a ValueError (the class name itself is not part of the property)
                ev['res'] = {'ok': False, 'grid': [], 'exc': 'ValueError' if isinstance(ex, ValueError) else type(ex).__name__}
        elif op == 'listing':
            ev['res'] = [[t.category.name, cps(t.encoding)] for t in _keep(doc.get_all_tokens(filter_by_categories=cats()))]
        elif op == 'unique':
            ev['res'] = [[t.category.name, cps(t.encoding)] for t in _keep(doc.get_unique_tokens(filter_by_categories=cats()))]
        elif op == 'encodings':
            ev['res'] = [cps(t) for t in _keep(doc.get_all_tokens_encodings(filter_by_categories=cats()))]
        elif op == 'uencodings':
            ev['res'] = [cps(t) for t in _keep(doc.get_unique_token_encodings(filter_by_categories=cats()))]
        elif op == 'freq':
            fr = _keep(doc.frequencies(token_categories=cats()))
            ev['res'] = [[cps(k), v['occurrences'], v['category']] for k, v in fr.items()]
        elif op == 'meta':
            ev['res'] = [cps(t) for t in _keep(doc.get_metacomments(KeyComment=uncps(a['key'])) if a['haskey'] else doc.get_metacomments())]
        elif op == 'mono':
            ev['res'] = bool(kp.is_monophonic(doc))
        elif op == 'spine_types':
            if form % 3 == 2:                        # through the document's long-lived Exporter object
                r = export_context(doc)['exporter'].get_spine_types(doc, None if a['alltypes'] else [uncps(t) for t in a['types']])
            else:
                r = kp.spine_types(doc) if a['alltypes'] and not form % 2 else kp.spine_types(
                    doc, headers=None if a['alltypes'] else [uncps(t) for t in a['types']])
            ev['res'] = [cps(t) for t in _keep(r)]
        elif op == 'spine_ids':
            ev['res'] = list(_keep(doc.get_spine_ids()))
        elif op == 'iter':
            try:
                ev['res'] = {'ok': True, 'v': [int(x) for x in doc]}
            except Exception as ex:  # noqa
                ev['res'] = {'ok': False, 'v': []}
        elif op == 'iterpairs':
            # OVERLAPPING iterations over the same document: two iterators advanced alternately, a nested loop, an iteration
            # that is resumed after another complete iteration ran in between
            try:
                single = [int(x) for x in doc]
                pairs = [[int(x), int(y)] for x, y in zip(doc, doc)]
                nested = [[int(x), int(y)] for x in doc for y in doc] if len(single) <= 14 else [[int(x), int(y)] for x in doc for y in doc][:196]
                it = iter(doc)
                first = [int(x) for x in [next(it)]] if single else []
                mid = [int(x) for x in doc]
                rest = [int(x) for x in it]
                ev['res'] = {'ok': True, 'v': pairs, 'single': single, 'nested': nested, 'first': first, 'mid': mid, 'rest': rest}
            except Exception as ex:  # noqa
                ev['res'] = {'ok': False, 'v': [], 'single': [], 'nested': [], 'first': [], 'mid': [], 'rest': []}
        elif op == 'graph':
            ev['res'] = graph_of(doc)
        elif op == 'mcount':
            try:
                ev['res'] = {'ok': True, 'v': int(doc.measures_count())}
            except Exception as ex:  # noqa
                ev['res'] = {'ok': False, 'v': 0}
        elif op == 'small':
            def val(f, bad=-1):
                try:
                    return f()
                except Exception:  # noqa
                    return bad
            other = call['_other']                                 # another document (harness-built) to match against
            ev['res'] = {
                'spine_count': int(val(doc.get_spine_count)),
                'leaves': [cps(n.token.encoding) for n in val(doc.get_leaves, [])],
                'first_measure': int(val(doc.get_first_measure)),
                'match_self': bool(val(lambda: kp.Document.match(doc, doc), False)),
                'match_core_self': bool(val(lambda: kp.Document.match(doc, doc, check_core_spines_only=True), False)),
                'match_other': bool(val(lambda: kp.Document.match(doc, other), False)),
                'match_core_other': bool(val(lambda: kp.Document.match(doc, other, check_core_spines_only=True), False)),
                'other_headers': [cps(t.encoding) for t in other.get_header_nodes()],
                'levels': [int(x) for x in val(doc.tree.root.count_nodes_by_stage, [])],
                'headers': [cps(t.encoding) for t in val(doc.get_header_nodes, [])],
            }
        elif op == 'opaque':
            what = call['_what']
            if what == 'graph':
                global _GRAPHN
                _GRAPHN += 1
                if _GRAPHN % 2 == 0:
                    what = 'graph_stdout'             # every other graph export goes to the standard output (fp=None)
            if what == 'graph':
                import tempfile
                import os
                d = tempfile.mkdtemp(prefix='kernpy_graph_')
                try:
                    run_quiet(kp.graph, doc, os.path.join(d, 'g.dot'))
                finally:
                    import shutil
                    shutil.rmtree(d, ignore_errors=True)
            elif what == 'graph_stdout':
                # the graph printed on the standard output (fp=None): the stream belongs to the process - it must still be open and
                # usable afterwards (a later call that prints must behave as in a fresh process)
                global _STDOUT
                if _STDOUT is None or _STDOUT.closed:
                    _STDOUT = io.StringIO()
                _STDOUT.seek(0)
                _STDOUT.truncate()
                with contextlib.redirect_stdout(_STDOUT), contextlib.redirect_stderr(io.StringIO()):
                    kp.graph(doc, None)
                ev['intact'] = not _STDOUT.closed
                if ev['intact']:
                    print('', file=_STDOUT)
            elif what == 'tokens_to_encodings':
                kp.Document.tokens_to_encodings(doc.get_all_tokens())
            elif what == 'header_nodes':
                doc.get_header_nodes()
            elif what == 'str_tokens':
                [str(n.token) for st in doc.tree.stages[1:] for n in st]
            elif what == 'partial_iter':
                try:
                    it = iter(doc)
                    next(it, None)
                    for _m in doc:
                        break
                except Exception:  # noqa
                    pass
            elif what == 'bad_dumps':
                try:
                    run_quiet(kp.dumps, doc, from_measure=-3)
                except Exception:  # noqa
                    pass
            ev['res'] = 0
        else:
            raise MachineryError('unknown call ' + op)
    except MachineryError:
        raise
    except Exception as ex:  # noqa  an unexpected exception of the implementation is a result, not a harness failure
        # verdicts are total: the event becomes a 'raised' event (clause <op>.raised_unexpectedly) instead of a value of the wrong shape
        ev['res'] = 'EXC:' + type(ex).__name__
        ev['was'] = ev['op']
        ev['op'] = 'raised'
    for x in _returned:
        # a returned collection belongs to the caller: it is emptied after it was recorded (later calls must not notice)
        try:
            x.clear()
        except Exception:  # noqa
            pass
    _returned.clear()
    ev['snap'] = snapshot(doc)
    return ev


_returned = []


def _keep(x):
    if isinstance(x, (list, dict, set)):
        _returned.append(x)
    return x


def record_reexport(doc, ref, enc='kern'):
    """export . import . export (C01).  enc='ekern': through the extended encoding and get_kern_from_ekern."""
    import kernpy as kp
    ev = {'ev': 'call', 'op': 'reexport', 'ref': ref, 'args': {'enc': enc}}
    try:
        if enc == 'kern':
            out1 = kp.dumps(doc)
            d2, e2 = kp.loads(out1)
            out2 = kp.dumps(d2)
        else:
            out1 = kp.dumps(doc, encoding=kp.Encoding.eKern)
            d2, e2 = kp.loads(kp.get_kern_from_ekern(out1))
            out2 = kp.dumps(d2, encoding=kp.Encoding.eKern)
        ev['res'] = {'ok': True, 'grid': grid_of(out2), 'exc': ''}
        ev['nerr'] = len(e2)
    except Exception as ex:  # noqa
        ev['res'] = {'ok': False, 'grid': [], 'exc': type(ex).__name__}
        ev['nerr'] = -1
    ev['snap'] = snapshot(doc)
    return ev


def record_arrangement(doc, ref, alt_lines, pairs):
    """dumps of another arrangement of the same content must be the same normal form (C01)."""
    import kernpy as kp
    ev = {'ev': 'call', 'op': 'arrangement', 'ref': ref, 'pairs': pairs, 'alt': render(alt_lines)}
    try:
        d2, e2 = kp.loads(ev['alt'])
        ev['res'] = {'ok': True, 'grid': grid_of(kp.dumps(d2)), 'exc': ''}
        ev['nerr'] = len(e2)
    except Exception as ex:  # noqa
        ev['res'] = {'ok': False, 'grid': [], 'exc': type(ex).__name__}
        ev['nerr'] = -1
    ev['snap'] = snapshot(doc)
    return ev


def relation(doc, rel, a, b, ea, eb):
    """A relation between two logged outputs (events a and b, 1-based indices); evaluated by TLC only."""
    return {'ev': 'call', 'op': 'relation', 'rel': rel, 'a': a, 'b': b, 'ea': ea, 'eb': eb, 'snap': snapshot(doc)}


def graph_of(doc):
    """kp.graph(doc, file) parsed back: ranks, edges and node labels with the node names replaced by (stage, position)."""
    import kernpy as kp
    import os
    import re
    import shutil
    import tempfile
    d = tempfile.mkdtemp(prefix='kernpy_graph_')
    try:
        path = os.path.join(d, 'g.dot')
        try:
            run_quiet(kp.graph, doc, path)
            text = open(path, encoding='utf-8').read()
        except Exception as ex:  # noqa
            return {'ok': False, 'ranks': [], 'edges': [], 'labels': [], 'exc': type(ex).__name__}
    finally:
        shutil.rmtree(d, ignore_errors=True)
    name2ptr, id2ptr, ranks = {}, {}, []
    for m in re.finditer(r'\{rank=same; ((?:"node\d+"; )+)\}', text):
        names = re.findall(r'"(node\d+)"', m.group(1))
        ranks.append(len(names))
        for i, n in enumerate(names):
            name2ptr[n] = [len(ranks), i + 1]
    raw = {}
    for m in re.finditer(r'^  "(node\d+)" \[label="\{ \{ #(\d+)\| stage (\d+) \| (.*?) \| (.*?) \| (.*?) \} \|', text, re.M):
        name, nid, stage, hdr, lastop, cat = m.groups()
        id2ptr[nid] = name2ptr.get(name, [-1, -1])
        raw[name] = (int(stage), hdr, lastop, cat)
    ref = lambda t: id2ptr.get(re.sub(r'\D', '', t), [-1, -1]) if t.strip() else [0, 0]  # noqa
    labels = [[None] * n for n in ranks]
    for name, (stage, hdr, lastop, cat) in raw.items():
        s_, i_ = name2ptr.get(name, [0, 0])
        if s_ >= 1:
            labels[s_ - 1][i_ - 1] = [stage, cat, ref(hdr), ref(lastop)]
    labels = [[x if x is not None else [-1, 'MISSING', [0, 0], [0, 0]] for x in row] for row in labels]
    edges = [[name2ptr.get(a, [-1, -1]), name2ptr.get(b, [-1, -1])] for a, b in re.findall(r'^  "(node\d+)" -> "(node\d+)";', text, re.M)]
    return {'ok': True, 'ranks': ranks, 'edges': edges, 'labels': labels, 'exc': ''}
