"""Generators of abstract Humdrum documents (independent of kernpy's parser).

Everything produced here is an *abstract description* in the vocabulary of the specification (spec/SpinePaths.tla cells,
spec/NoteGrammar.tla note records); the text of a note/chord/barline cell is rendered from its record and TLC re-derives
it (Trace_Session!CellTextOK), so description and text cannot drift apart unnoticed.
"""
from __future__ import annotations

import random

from .common import cps

# the 34 single-character signifiers that do not combine with their neighbours in the grammar (DESIGN.md 3.4)
SIG34 = list("^'s\"`~tLJKkX;:[]_Mm{}()/\\S$iNjZOlV")
ALTDISP = set("xXiIjZyY")           # characters the grammar also reads as accidental-display suffix
REST_SIGS = list(";()'{}")          # signifiers the grammar allows on rests (and on notes)
# signifiers of more than one character (elided slurs, hidden tie start, inverted mordent, beam with staff change): one decoration each.
# Opt-in (profile flag multi_sigs) so that the random streams of the fixed corpora do not change.  Not included on purpose: 'TT'
# (read as two 'T'), '??' / 'yy' (runs merge: a repetition would be another signifier), 'xx' (also an accidental display suffix)
MULTI_SIGS = ['&(', '&)', '&&(', '[y', 'Ww', 'L<', 'J>']
MULTI_REST_SIGS = ['&(', '&)']
BARTYPES = ['', '', '', '||', '|!', '|!:', '|:', '!|:', ':|!', '=:|!', ':|!|:', ':||:', ':!:', ':!!:', '=']
CLEFS = ['*clefG2', '*clefF4', '*clefC3', '*clefC1', '*clefGv2', '*clefF3', '*clefC4', '*clefC2', '*clefG^2', '*clefFvv4']
KEYSIGS = ['*k[]', '*k[f#]', '*k[b-e-]', '*k[f#c#g#]', '*kcancel', '*k[b-]X']
TIMESIGS = ['*M4/4', '*M3/4', '*M6/8', '*M2+3/8', '*M3/4:2/4', '*M2/2%2']
METERS = ['*met(c)', '*met(c|)', '*met(O.)', '*M(c)']
STAFFS = ['*staff1', '*staff2', '*staff1/2']
BBOXES = ['*xywh-1:0,0,10,10', '*xywh-2:5,6,70,80', '*xywh-1:3,4,200,1', '*xywh-10:0,90,15,15', '*xywh-2:0,0,1,1', '*xywh-3:7,7,7,7']
OCTX = ['*MM120', '*MM96.5', '*C:', '*a:', '*C/a:', '*8va', '*X8va', '*8ba', '*e-:', '*F#:dor']
TANDEM = ['*Ipiano', '*I"Violin I', '*mI"Title', '*>A', '*>[A,B,A]', '*>norep[A,B]', '*tb8', '*rh', '*lh', '*part1', '*group2',
          '*solo', '*accomp', '*strophe', '*Trd1c2', '*ITrd-1c-2', '*S/sic', '*S/ossia']
VISUAL = ['*ped', '*Xped', '*cue', '*Xcue', '*above', '*below', '*below:2', '*centered', '*rscale:1/2', '*rscale:2', '*tremolo',
          '*Xtremolo', '*tuplet', '*Xtuplet', '*tstart', '*tend', '*ela']
LYR = ['la', 'li-', '-la', 'A_men', 'ñu', '¿qué?', 'a b', 'x,y', '"hi"', '"open', 'it\'s', 'Kyrie', 'e|le', '1.', 'do re mi',
       'c', '4c', 'r', 'über', '日本', 'a"b', ',', 'C7', 'f']
DYN = ['f', 'p', 'mf', '<', '>', '(', ')', '[', ']', 'ff', 'sfz', 'cresc.', 'pp', 'X']
HARM = ['I', 'V7', 'iv', 'C7', 'Dm', 'G/B', 'viio', 'N6', 'C maj7', 'f']
FING = ['1', '2', '3', '4', '5', '1 3', '5-4', 'f']
OTHERTXT = ['zz', 'foo bar', '123', '?', 'f']
FCOMS = ['!', '!x', '!a b', '!"q', '!c,d', '!é', '!LO:TX:a:t=hi']
GCOMS = ['!!!COM: Someone', '!!!OTL: A "title", with comma', '!! plain comment', '!!!voices: 2', '!!é ü', '!!', '!!!COM: Other']
KERN = '**kern'
TYPES = ['**kern', '**text', '**dynam', '**dyn', '**harm', '**mxhm', '**fing', '**root']
OWNPOOL = {'**text': LYR, '**dynam': DYN, '**dyn': DYN, '**harm': HARM, '**mxhm': HARM, '**fing': FING}
KERNLIKE = ('**kern', '**root')


# ------------------------------------------------------------------------------------------------
# cells
# ------------------------------------------------------------------------------------------------
def lit(k, s):
    return {'k': k, 't': cps(s)}


def atoms(s):
    return [cps(ch) if isinstance(ch, str) else list(ch) for ch in s]


def note_text(n):
    flat = lambda xs: [c for a in xs for c in a]  # noqa
    return flat(n['s0']) + flat(n['dur']) + flat(n['s1']) + n['p'] + flat(n['s2']) + n['acc'] + flat(n['s3'])


def mk_note(s0='', dur=(), s1='', p='c', s2='', acc='', s3='', rest=False):
    return {'s0': atoms(s0), 'dur': [cps(d) for d in dur], 's1': atoms(s1), 'p': cps(p), 's2': atoms(s2), 'acc': cps(acc),
            's3': atoms(s3), 'rest': rest}


def note_cell(n):
    return {'k': 'note', 't': note_text(n), 'n': n}


def chord_cell(ns):
    t = []
    for i, n in enumerate(ns):
        if i:
            t.append(32)
        t += note_text(n)
    return {'k': 'chord', 't': t, 'ns': ns}


def mk_bar(dbl=False, num='', ab='', hid=False, typ='', ferm=False, tail=''):
    b = {'dbl': dbl, 'num': cps(num), 'ab': cps(ab), 'hid': hid, 'typ': cps(typ), 'ferm': ferm, 'tail': cps(tail)}
    t = cps('=' + ('=' if dbl else '') + num + ab + ('-' if hid else '') + typ + (';' if ferm else '') + tail)
    return {'k': 'bar', 't': t, 'bar': b}


NULL = lambda: lit('null', '.')     # noqa
NULLI = lambda: lit('nulli', '*')   # noqa
SPLIT = lambda: lit('split', '*^')  # noqa
JOIN = lambda: lit('join', '*v')    # noqa
TERM = lambda: lit('term', '*-')    # noqa
ADD = lambda: lit('add', '*+')      # noqa   add-spine operator: continues twice; the next line names the new spine (**type)
EXCH = lambda: lit('exch', '*x')    # noqa   exchange operator: not supported by kernpy (the import must raise)


class DocGen:
    """Random documents of C01's grammar.  `p` holds the profile switches (see DEFAULT)."""
    DEFAULT = dict(
        types=TYPES, max_spines=4, max_rows=22, min_rows=3, max_paths=6,
        sigs=True, max_sigs=4, multi_sigs=False, accdisp=True, triple_acc=True, rational=True, grace=True, durless=True,
        chords='core',            # 'none' | 'core' (every note has a duration; union of signifiers writable) | 'explore'
        rests=True, rr=False, hidden_bars=False, bar_numbers=True, bar_tails=False,
        pre_comments=True, mid_comments=True, post_comments=True, fcoms=True,
        interp=True, nonkern_tandem=True, mid_sigs=True, clef_first=0.85,
        splits=True, nested=True, multi_ops=True, early_term=True, ops_burst=0.45,
        blank_lines=False, final_bar=0.6, opening_bar=0.5, surplus=False,
        kern_only=False, first_kern=0.85, own_text=True, root_sigs=False, root_plain=False, nonkern_sigs=0.15,
    )

    def __init__(self, rnd: random.Random, **profile):
        self.r = rnd
        self.p = dict(self.DEFAULT)
        self.p.update(profile)
        self.classes = set()

    # ---------------- notes ----------------
    def duration(self):
        r, p = self.r, self.p
        k = r.random()
        if p['durless'] and k < 0.06:
            return []
        if p['rational'] and k < 0.16:
            d = f"{r.choice([3, 5, 7, 12])}%{r.choice([2, 4, 8])}"
        else:
            d = str(r.choice([1, 2, 4, 4, 8, 8, 16, 32, 64, 0, 3, 6, 12, 24, 128, '00']))
        out = [d] + ['.'] * r.choice([0, 0, 0, 1, 1, 2])
        if p['grace']:
            g = r.random()
            if g < 0.07:
                out.append('q')
            elif g < 0.10:
                out.append('qq')
            elif g < 0.13:
                out.append('p')
            elif g < 0.16:
                out.append('P')
        return out

    def pitch(self):
        r = self.r
        l = r.choice('abcdefg')
        n = r.choice([1, 1, 1, 2, 2, 3, 4])
        return (l * n) if r.random() < 0.6 else (l.upper() * n)

    def accidental(self):
        r, p = self.r, self.p
        pool = ['', '', '', '', '#', '-', '##', '--', 'n'] + (['###', '---'] if p['triple_acc'] else [])
        a = r.choice(pool)
        if a and p['accdisp'] and r.random() < 0.3:
            a += r.choice(['x', 'X', 'i', 'I', 'j', 'Z', 'y', 'yy', 'Y', 'YY'])
        return a

    def note(self, pool=None, maxsig=None, force_dur=False, no_acc=False):
        r, p = self.r, self.p
        d = self.duration()
        while force_dur and not d:
            d = self.duration()
        a = '' if no_acc else self.accidental()
        if pool is None:
            pool = SIG34 + (MULTI_SIGS * 3 if p['multi_sigs'] else [])
        pool = [c for c in pool if not (a and c in ALTDISP)]
        k = 0
        if p['sigs'] and pool:
            k = r.choice([0, 0, 1, 1, 2, 3, maxsig if maxsig is not None else p['max_sigs']])
        sigs = [r.choice(pool) for _ in range(k)]
        slots = [[], [], [], []]
        for s in sigs:
            j = r.randrange(4)
            if not d and j == 1:
                j = 0
            if not a and j == 3:
                j = 2
            slots[j].append(s)
        return mk_note(slots[0], d, slots[1], self.pitch(), slots[2], a, slots[3])

    def rest(self, force_dur=False, pool=None):
        r, p = self.r, self.p
        d = self.duration()
        while force_dur and not d:
            d = self.duration()
        rs = REST_SIGS + (MULTI_REST_SIGS * 2 if p['multi_sigs'] else [])
        pool = rs if pool is None else [c for c in pool if c in rs]
        sigs = [r.choice(pool) for _ in range(r.choice([0, 0, 1, 2]))] if p['sigs'] and pool else []
        k = r.randrange(len(sigs) + 1)
        return mk_note(sigs[:k], d, '', 'rr' if (p['rr'] and r.random() < 0.2) else 'r', '', '', sigs[k:], rest=True)

    def chord(self):
        r, p = self.r, self.p
        n = r.choice([2, 2, 3])
        if p['chords'] == 'explore':
            ns = [(self.note() if r.random() < 0.8 else self.rest()) for _ in range(n)]
            return chord_cell(ns)
        # core: every member has a duration, and the union of signifiers is writable on every member
        has_rest = p['rests'] and r.random() < 0.15
        pool = (REST_SIGS + (MULTI_REST_SIGS * 2 if p['multi_sigs'] else [])) if has_rest else (SIG34 + (MULTI_SIGS * 3 if p['multi_sigs'] else []))
        accs_ok = r.random() < 0.5      # either accidentals or display-suffix signifiers in the chord, not both
        if accs_ok:
            pool = [c for c in pool if c not in ALTDISP]
        ns = []
        for i in range(n):
            if has_rest and i == r.randrange(n):
                ns.append(self.rest(force_dur=True, pool=pool))
            else:
                ns.append(self.note(pool=pool, maxsig=2, force_dur=True, no_acc=not accs_ok))
        return chord_cell(ns)

    # ---------------- other cells ----------------
    def bar(self, m):
        r, p = self.r, self.p
        return mk_bar(dbl=r.random() < 0.12, num=str(m) if (p['bar_numbers'] and r.random() < 0.6) else '',
                      ab=r.choice(['', '', '', '', 'a', 'b']) if p['bar_numbers'] else '',
                      hid=p['hidden_bars'] and r.random() < 0.3, typ=r.choice(BARTYPES), ferm=r.random() < 0.08,
                      tail=r.choice(['', '', '', 'j', '.', '?']) if p['bar_tails'] else '')

    def data_cell(self, typ):
        r, p = self.r, self.p
        if typ in KERNLIKE:
            k = r.random()
            if k < 0.12:
                return NULL()
            if typ == '**root':
                if p['root_plain']:          # harmonic roots as they are written in practice: no signifiers at all
                    n = self.note(pool=[]) if k < 0.85 or not p['rests'] else self.rest(pool=[])
                else:
                    n = self.note(maxsig=0) if k < 0.85 or not p['rests'] else self.rest()
                return note_cell(n)
            if k < 0.62:
                return note_cell(self.note())
            if k < 0.78 and p['rests']:
                return note_cell(self.rest())
            if p['chords'] != 'none':
                return self.chord()
            return note_cell(self.note())
        if r.random() < 0.3 or not p['own_text']:
            return NULL()
        return lit('text', r.choice(OWNPOOL.get(typ, OTHERTXT)))

    def interp_cell(self, typ, kind=None):
        r, p = self.r, self.p
        pools = {'clef': CLEFS, 'keysig': KEYSIGS, 'timesig': TIMESIGS, 'meter': METERS, 'staff': STAFFS, 'bbox': BBOXES,
                 'octx': OCTX, 'tandem': TANDEM, 'visual': VISUAL}
        if kind is None:
            kind = r.choice(list(pools))
        t = r.choice(pools[kind])
        if typ in KERNLIKE:
            return lit(kind, t)
        if kind in ('clef', 'keysig', 'timesig', 'meter', 'staff', 'bbox'):
            return lit(kind, t)               # shared structure: the same class under every spine type
        return lit('text', t)                 # kern-only interpretation in another spine type: verbatim own-category text

    # ---------------- documents ----------------
    def document(self):
        r, p = self.r, self.p
        lines = []
        nsp = r.choice([n for n in [1, 1, 2, 2, 3, 4] if n <= p['max_spines']])
        if p['kern_only']:
            types = [KERN] * nsp
        else:
            types = [r.choice(p['types']) if r.random() < 0.5 else KERN for _ in range(nsp)]
            if r.random() < p['first_kern']:
                types[0] = KERN
        if p['pre_comments']:
            for _ in range(r.choice([0, 0, 1, 2])):
                lines.append({'ev': 'global', 'cell': lit('gcom', r.choice(GCOMS))})
        lines.append({'ev': 'header', 'cells': [lit('hdr', t) for t in types]})
        paths = list(range(nsp))           # spine index of each live path

        def typ(j):
            return types[paths[j]]

        def row(cells):
            lines.append({'ev': 'row', 'cells': cells})

        def maybe_global():
            if p['mid_comments'] and r.random() < 0.06:
                lines.append({'ev': 'global', 'cell': lit('gcom', r.choice(GCOMS))})
            if p['blank_lines'] and r.random() < 0.08:
                lines.append({'ev': 'blank'})

        # preamble signatures
        for kind in ('clef', 'keysig', 'timesig'):
            if r.random() < (p['clef_first'] if kind == 'clef' else 0.7):
                cells = []
                for j in range(len(paths)):
                    if typ(j) == KERN or (typ(j) == '**root' and p['root_sigs']) or (typ(j) not in KERNLIKE and r.random() < p['nonkern_sigs']):
                        cells.append(self.interp_cell(typ(j), kind))
                    else:
                        cells.append(NULLI())
                if any(c['k'] != 'nulli' for c in cells):
                    row(cells)
        m = 1
        if r.random() < p['opening_bar']:
            b = self.bar(m)
            row([dict(b) for _ in paths])
            m += 1
        nrows = r.randint(p['min_rows'], p['max_rows'])
        for _ in range(nrows):
            if not paths:
                break
            maybe_global()
            k = r.random()
            if k < 0.55:
                row([self.data_cell(typ(j)) for j in range(len(paths))])
            elif k < 0.68:
                b = self.bar(m)
                m += 1
                row([(dict(b) if r.random() < 0.9 else self.bar(m)) for _ in paths])
            elif k < 0.76 and p['interp']:
                cells = []
                for j in range(len(paths)):
                    if r.random() < 0.5:
                        kinds = ['octx', 'tandem', 'visual', 'staff', 'bbox'] + (['clef', 'keysig', 'timesig', 'meter'] if p['mid_sigs'] else [])
                        if typ(j) not in KERNLIKE and not p['nonkern_tandem']:
                            kinds = [x for x in kinds if x in ('staff', 'bbox', 'clef', 'keysig', 'timesig', 'meter')]
                        if typ(j) != KERN and p['nonkern_sigs'] == 0:
                            kinds = [x for x in kinds if x not in ('clef', 'keysig', 'timesig', 'meter')]
                        cells.append(self.interp_cell(typ(j), r.choice(kinds)) if kinds else NULLI())
                    else:
                        cells.append(NULLI())
                if any(c['k'] != 'nulli' for c in cells):
                    row(cells)
            elif k < 0.82 and p['fcoms']:
                row([lit('fcom', r.choice(FCOMS)) for _ in paths])
            elif p['splits']:
                self.ops_row(paths, row)
                while paths and r.random() < p['ops_burst']:      # several operator lines in a row
                    self.ops_row(paths, row)
        if paths and r.random() < p['final_bar']:
            row([mk_bar(dbl=True) for _ in paths])
        if paths:
            row([TERM() for _ in paths])
            paths[:] = []
        if p['post_comments']:
            for _ in range(r.choice([0, 0, 0, 1, 2])):
                lines.append({'ev': 'global', 'cell': lit('gcom', r.choice(GCOMS))})
        return lines, types

    def ops_row(self, paths, row):
        """One spine-operator row: one or several operators (splits, well-formed joins, early terminators)."""
        r, p = self.r, self.p
        n = len(paths)
        cells = [NULLI() for _ in range(n)]
        used = [False] * n
        nops = r.choice([1, 1, 1, 2, 3]) if p['multi_ops'] else 1
        grow = 0
        for _ in range(nops):
            kind = r.random()
            if kind < 0.5:
                cand = [j for j in range(n) if not used[j] and (p['nested'] or paths.count(paths[j]) == 1)]
                if cand and n + grow < p['max_paths']:
                    j = r.choice(cand)
                    cells[j] = SPLIT()
                    used[j] = True
                    grow += 1
            elif kind < 0.9:
                runs = []
                j = 0
                while j < n - 1:
                    if paths[j] == paths[j + 1] and not used[j] and not used[j + 1]:
                        e = j + 1
                        while e + 1 < n and paths[e + 1] == paths[j] and not used[e + 1] and r.random() < 0.5:
                            e += 1
                        runs.append((j, e))
                        j = e + 1
                    else:
                        j += 1
                if runs:
                    a, b = r.choice(runs)
                    # a join run must not touch another join run of the same spine (they would merge into one)
                    if not ((a > 0 and cells[a - 1]['k'] == 'join' and paths[a - 1] == paths[a])
                            or (b < n - 1 and cells[b + 1]['k'] == 'join' and paths[b + 1] == paths[b])):
                        for j in range(a, b + 1):
                            cells[j] = JOIN()
                            used[j] = True
            elif p['early_term']:
                cand = [j for j in range(n) if not used[j]]
                if cand and n > 1:
                    j = r.choice(cand)
                    cells[j] = TERM()
                    used[j] = True
        if all(c['k'] == 'nulli' for c in cells):
            return
        row(cells)
        new = []
        j = 0
        while j < n:
            k = cells[j]['k']
            if k in ('split', 'add'):
                new += [paths[j], paths[j]]
            elif k == 'term':
                pass
            elif k == 'join':
                new.append(paths[j])
                while j + 1 < n and cells[j + 1]['k'] == 'join' and paths[j + 1] == paths[j]:
                    j += 1
            else:
                new.append(paths[j])
            j += 1
        paths[:] = new


# ------------------------------------------------------------------------------------------------
# classes of a document (computed from the description only)
# ------------------------------------------------------------------------------------------------
def all_cells(lines):
    for e in lines:
        if e['ev'] in ('row', 'header', 'surplus'):
            for c in e['cells']:
                yield c
        elif e['ev'] == 'global':
            yield e['cell']


def chord_union_not_writable(ns):
    flat = lambda n: {tuple(a) for k in ('s0', 's1', 's2', 's3') for a in n[k]}  # noqa
    U = set()
    for n in ns:
        U |= flat(n)
    chars = {chr(a[0]) for a in U if len(a) == 1}
    for n in ns:
        if n['rest'] and not chars <= set(REST_SIGS):
            return True
        if not n['rest'] and n['acc'] and (chars & ALTDISP):
            return True
    return False


def doc_classes(lines):
    cl = set()
    for c in all_cells(lines):
        if c['k'] == 'chord':
            if chord_union_not_writable(c['ns']):
                cl.add('chord_union_not_writable')
            if any(not n['dur'] for n in c['ns'][1:]) and any(n['dur'] for n in c['ns']):
                cl.add('chord_note_without_duration')
        if c['k'] == 'bar' and c['bar']['hid']:
            cl.add('hidden_barline')
        if c['k'] == 'note' and c['n']['rest'] and len(c['n']['p']) == 2:
            cl.add('double_rest_letter')
    return cl


# ------------------------------------------------------------------------------------------------
# another arrangement of the same content (C01 canonicity): order, position and repetition of signifiers change
# ------------------------------------------------------------------------------------------------
def rearrange_note(n, r):
    written = []
    for k in ('s0', 's1', 's2', 's3'):
        for a in n[k]:
            if a not in written:
                written.append(a)
    pool = list(written)
    for a in written:                       # repetition
        if r.random() < 0.35:
            pool.append(a)
    r.shuffle(pool)
    slots = {'s0': [], 's1': [], 's2': [], 's3': []}
    for a in pool:
        if n['rest']:
            k = r.choice(['s0', 's3'])
        else:
            k = r.choice(['s0', 's1', 's2', 's3'])
            if not n['dur'] and k == 's1':
                k = 's0'
            if not n['acc'] and k == 's3':
                k = 's2'
        slots[k].append(a)
    m = dict(n)
    m.update(slots)
    return m


def rearranged(lines, r):
    import copy
    out = copy.deepcopy(lines)
    pairs = []
    for e in out:
        if e['ev'] != 'row':
            continue
        for i, c in enumerate(e['cells']):
            if c['k'] == 'note':
                m = rearrange_note(c['n'], r)
                pairs.append([c['n'], m])
                e['cells'][i] = note_cell(m)
            elif c['k'] == 'chord':
                ms = [rearrange_note(n, r) for n in c['ns']]
                pairs += [[a, b] for a, b in zip(c['ns'], ms)]
                e['cells'][i] = chord_cell(ms)
    return out, pairs


def path_tracker(lines):
    """Independent column tracker over a description: yields (line event, [state per live path BEFORE the line]) for every
    row; a path state is {'spine': id, 'sigs': {kind: text}, 'depth': number of open splits}."""
    paths = []
    for e in lines:
        if e['ev'] == 'header':
            paths = [{'spine': i, 'sigs': {}, 'depth': 0} for i in range(len(e['cells']))]
            continue
        if e['ev'] != 'row':
            continue
        yield e, [dict(p, sigs=dict(p['sigs'])) for p in paths]
        new = []
        cells = e['cells']
        j = 0
        while j < len(cells) and j < len(paths):
            k = cells[j]['k']
            p = paths[j]
            if k in ('clef', 'keysig', 'timesig', 'meter'):
                p['sigs'][k] = tuple(cells[j]['t'])
            if k in ('split', 'add'):
                new += [dict(p, sigs=dict(p['sigs']), depth=p['depth'] + 1), dict(p, sigs=dict(p['sigs']), depth=p['depth'] + 1)]
            elif k == 'term':
                pass
            elif k == 'join':
                q = dict(p, sigs=dict(p['sigs']), depth=max(0, p['depth'] - 1))
                while j + 1 < len(cells) and cells[j + 1]['k'] == 'join' and paths[j + 1]['spine'] == p['spine']:
                    j += 1
                new.append(q)
            else:
                new.append(p)
            j += 1
        paths = new


def range_classes(lines, kern_export_only=False):
    """document-level input classes of the measure-excerpt findings (D15), from the description only."""
    cl = set()
    seen_measure = False
    nsp = 0
    for e in lines:
        if e['ev'] == 'header':
            nsp = len(e['cells'])
            if any(bytes(c['t']).decode() != '**kern' for c in e['cells']):
                cl.add('nonkern_spine')
    for e, paths in path_tracker(lines):
        ks = {c['k'] for c in e['cells']}
        if len({frozenset(p['sigs']) for p in paths}) > 1:
            cl.add('unequal_sig_kinds')
        if any(p['depth'] >= 2 for p in paths):
            cl.add('nested_split')          # a sub-spine was split again: which split a later join closes is not what the importer records
        core_or_bar = ks & {'note', 'chord', 'null', 'nulli', 'bar', 'err'}
        if seen_measure and ks & {'clef', 'keysig', 'timesig', 'meter'}:
            cl.add('midscore_sig')
        if core_or_bar:
            first = not seen_measure
            if first or 'bar' in ks:
                sp = [p['spine'] for p in paths]
                if any(p['depth'] > 0 for p in paths) or len(sp) != len(set(sp)) or ks & {'split', 'join', 'term'}:
                    cl.add('start_inside_split')
            seen_measure = True
    return cl


# ------------------------------------------------------------------------------------------------
# core scores of C08: signatures only before the first measure, every split re-joined before the next barline
# ------------------------------------------------------------------------------------------------
SIGKINDS = ('clef', 'keysig', 'timesig', 'meter')


def late_signature_score(r):
    """a core score whose signature lines (the same kinds in every spine) do not stand before the first measure but right after the
    barline that opens a later measure: a sketch that gets its clef in measure j, an upbeat written before the signature lines"""
    for _ in range(50):
        lines, types = core_score(r)
        nsig = 0
        while 1 + nsig < len(lines) and lines[1 + nsig]['ev'] == 'row' and lines[1 + nsig]['cells'][0]['k'] in SIGKINDS:
            nsig += 1
        bars = [i for i, e in enumerate(lines) if e['ev'] == 'row' and e['cells'][0]['k'] == 'bar' and len(e['cells']) == len(types)]
        if not nsig or not bars:
            continue
        sigs = lines[1:1 + nsig]
        j = r.choice(bars)
        return lines[:1] + lines[1 + nsig:j + 1] + sigs + lines[j + 1:], types
    return core_score(r)


def core_score(r, max_measures=6):
    g = DocGen(r, chords='core', kern_only=True)
    nsp = r.choice([1, 1, 2, 3])
    lines = [{'ev': 'header', 'cells': [lit('hdr', KERN) for _ in range(nsp)]}]
    for kind, pool in (('clef', CLEFS[:8]), ('keysig', KEYSIGS), ('timesig', TIMESIGS)):
        if r.random() < 0.85:
            lines.append({'ev': 'row', 'cells': [lit(kind, r.choice(pool)) for _ in range(nsp)]})

    def data(n):
        lines.append({'ev': 'row', 'cells': [g.data_cell(KERN) for _ in range(n)]})
    if r.random() < 0.3:                                    # pickup
        for _ in range(r.randint(1, 2)):
            data(nsp)
    nm = r.randint(1, max_measures)
    for m in range(1, nm + 1):
        b = g.bar(m)
        lines.append({'ev': 'row', 'cells': [dict(b) for _ in range(nsp)]})
        for _ in range(r.randint(1, 3)):
            data(nsp)
        if r.random() < 0.35:
            i = r.randrange(nsp)
            lines.append({'ev': 'row', 'cells': [SPLIT() if j == i else NULLI() for j in range(nsp)]})
            n = nsp + 1
            nested = r.random() < 0.3
            if nested:
                k = r.choice([i, i + 1])
                lines.append({'ev': 'row', 'cells': [SPLIT() if j == k else NULLI() for j in range(n)]})
                n += 1
            for _ in range(r.randint(1, 2)):
                data(n)
            if nested:
                if r.random() < 0.5:                        # join all three at once
                    lines.append({'ev': 'row', 'cells': [JOIN() if i <= j <= i + 2 else NULLI() for j in range(n)]})
                    n -= 2
                else:
                    lines.append({'ev': 'row', 'cells': [JOIN() if j in (k, k + 1) else NULLI() for j in range(n)]})
                    n -= 1
                    if r.random() < 0.5:
                        data(n)
                    lines.append({'ev': 'row', 'cells': [JOIN() if j in (i, i + 1) else NULLI() for j in range(n)]})
                    n -= 1
            else:
                lines.append({'ev': 'row', 'cells': [JOIN() if j in (i, i + 1) else NULLI() for j in range(n)]})
                n -= 1
            if r.random() < 0.5:
                data(nsp)
    if r.random() < 0.6:
        lines.append({'ev': 'row', 'cells': [mk_bar(dbl=True) for _ in range(nsp)]})
    lines.append({'ev': 'row', 'cells': [TERM() for _ in range(nsp)]})
    return lines, [KERN] * nsp


CORE_KINDS = {'note', 'chord', 'null', 'nulli', 'err'}


def measure_rows(lines, types):
    """indices (into `lines`) of the lines that start a measure, by the measure rule, from the description only."""
    starts = []
    tracker = {id(e): paths for e, paths in path_tracker(lines)}
    for i, e in enumerate(lines):
        if e['ev'] != 'row':
            continue
        paths = tracker[id(e)]
        hit = False
        for c, p in zip(e['cells'], paths):
            if c['k'] in ('split', 'join', 'term', 'fcom'):
                continue
            kernlike = types[p['spine']] in KERNLIKE
            if c['k'] == 'bar':
                hit = True
            elif not starts and (c['k'] in ('null', 'nulli') or (kernlike and c['k'] in CORE_KINDS)):
                hit = True
        if hit:
            starts.append(i)
    return starts
