"""Recording of kernpy's pitch code (shared by C09, C10, C16)."""
from __future__ import annotations

from ..common import cps, fresh

LETTERS = 'CDEFGAB'
QUALS_P = ['dd', 'd', 'P', 'A', 'AA']
QUALS_M = ['dd', 'd', 'm', 'M', 'A', 'AA']


def spell(l, a, o):
    """harness-side rendering of the abstract pitch (the spec re-derives it: Pitch!Spell, and TLC compares)."""
    ch = LETTERS[l]
    s = ch.lower() * (o - 3) if o >= 4 else ch.upper() * (4 - o)
    return s + ('#' * a if a > 0 else '-' * (-a))


def safe(f, *a, **k):
    try:
        return True, f(*a, **k)
    except Exception as ex:  # noqa
        return False, type(ex).__name__


def txt(ok, v):
    return cps(v) if ok and isinstance(v, str) else []


def record_tables():
    from kernpy.core import pitch_models as pm, transposer as tr
    recs = []
    recs.append({'op': 'chromatable', 'res': [[n, v] for n, v in sorted(pm.Chromas.items(), key=lambda kv: kv[1])]})
    for v, n in tr.Intervals.items():
        recs.append({'op': 'interval', 'name': n, 'val': v})
    for n, v in tr.IntervalsByName.items():
        recs.append({'op': 'interval', 'name': n, 'val': v})
    recs.append({'op': 'intervalnames', 'res': list(tr.AVAILABLE_INTERVALS)})
    import kernpy as kp
    recs.append({'op': 'intervalnames', 'res': list(kp.AVAILABLE_INTERVALS)})
    return recs


def record_transpose():
    import kernpy as kp
    from kernpy.core import transposer as tr
    recs = []
    names = list(tr.IntervalsByName.keys())
    for l in range(7):
        for a in range(-2, 3):
            for o in range(0, 9):
                s = spell(l, a, o)
                for iv in names:
                    for up in (True, False):
                        d = fresh('up' if up else 'down') if (l + a + o) % 2 else ('up' if up else 'down')
                        ok, out = safe(kp.transpose, s, tr.IntervalsByName[iv], direction=d)
                        if ok:
                            bok, back = safe(kp.transpose, out, tr.IntervalsByName[iv], direction=fresh('down' if up else 'up'))
                        else:
                            bok, back = False, ''
                        recs.append({'op': 'transpose', 'l': l, 'a': a, 'o': o, 'iv': iv, 'up': up, 'inp': cps(s),
                                     'ok': ok, 'out': txt(ok, out), 'exc': '' if ok else out,
                                     'backok': bok, 'back': txt(bok, back)})
                for up in (True, False):
                    d = fresh('up' if up else 'down')
                    ok4, o4 = safe(kp.transpose, s, tr.IntervalsByName['P4'], direction=d)
                    ok45, o45 = safe(kp.transpose, o4, tr.IntervalsByName['P5'], direction=d) if ok4 else (False, '')
                    ok8, o8 = safe(kp.transpose, s, tr.IntervalsByName['octave'], direction=d)
                    recs.append({'op': 'compose', 'l': l, 'a': a, 'o': o, 'up': up, 'inp': cps(s), 'ok4': ok4, 'ok45': ok45,
                                 'out45': txt(ok45, o45), 'ok8': ok8, 'out8': txt(ok8, o8)})
    return recs


def record_codec():
    from kernpy.core.pitch_models import HumdrumPitchImporter, HumdrumPitchExporter
    recs = []
    # ONE importer and ONE exporter object serve the whole sweep (a history of 539 x 3 calls on the same objects), ordered so
    # that altered and natural spellings, high and low octaves alternate; a fresh pair is used for every third spelling
    shared_imp, shared_ex = HumdrumPitchImporter(), HumdrumPitchExporter()
    grid = [(l, a, o) for o in range(-1, 10) for a in (3, 0, -3, 1, 0, -1, 2, 0, -2) for l in range(7)]
    seen = set()
    cnt = 0
    for (l, a, o) in grid:
            if (l, a, o) in seen and a != 0:
                continue
            seen.add((l, a, o))
            cnt += 1
            if True:
                s = spell(l, a, o)
                r = {'op': 'codec', 'l': l, 'a': a, 'o': o, 'inp': cps(s)}
                try:
                    imp, ex = (HumdrumPitchImporter(), HumdrumPitchExporter()) if cnt % 3 == 0 else (shared_imp, shared_ex)
                    p = imp.import_pitch(s)
                    r.update(name0=str(p.name), oct0=int(p.octave))
                    for k in ('1', '2'):
                        ok, out = safe(ex.export_pitch, p)
                        r.update({'out' + k: txt(ok, out), 'name' + k: str(p.name), 'oct' + k: int(p.octave)})
                    try:                     # the imported pitch belongs to the caller: it is moved elsewhere after the record was taken
                        p.octave = int(p.octave) + 1
                        p.name = 'D-'
                    except Exception:  # noqa
                        pass
                except Exception as e:  # noqa
                    r.setdefault('name0', 'EXC:' + type(e).__name__)
                    r.setdefault('oct0', 0)
                    for k in ('1', '2'):
                        r.setdefault('out' + k, [])
                        r.setdefault('name' + k, 'EXC')
                        r.setdefault('oct' + k, 0)
                recs.append(r)
    return recs


CLEFS = {'G2': ('G', '2'), 'F3': ('F', '3'), 'F4': ('F', '4'), 'C1': ('C', '1'), 'C2': ('C', '2'), 'C3': ('C', '3'), 'C4': ('C', '4')}
MARKS = ['', 'v', 'vv', '^', '^^']


def record_agnostic():
    from kernpy.core.gkern import pitch_to_gkern_string, ClefFactory
    from kernpy.core.pitch_models import HumdrumPitchImporter
    recs = []
    for k, (sign, line) in CLEFS.items():
        for mark in MARKS:
            clef_txt = f'*clef{sign}{mark}{line}'
            for l in range(7):
                for a in range(-2, 3):
                    for o in range(0, 9):
                        s = spell(l, a, o)

                        def conv():
                            clef = ClefFactory.create_clef(clef_txt)
                            p = HumdrumPitchImporter().import_pitch(s)
                            out = pitch_to_gkern_string(p, clef)
                            # what the API handed out belongs to the caller: the clef's reference pitches and the imported pitch are moved
                            # elsewhere after use (later conversions must not notice)
                            for q in (clef.bottom_line(), clef.reference_point().base_pitch, p):
                                try:
                                    q.octave = int(q.octave) + 2
                                    q.name = 'A+'
                                except Exception:  # noqa
                                    pass
                            return out
                        ok, out = safe(conv)
                        recs.append({'op': 'agn', 'k': k, 'mark': cps(mark), 'clef': cps(clef_txt), 'l': l, 'a': a, 'o': o,
                                     'inp': cps(s), 'ok': ok, 'out': txt(ok, out), 'exc': '' if ok else out})
    return recs


def replay_object_history(hist):
    """one MC_PitchObj behaviour on ONE real AgnosticPitch object (and one exporter); a record per step."""
    from kernpy.core import pitch_models as pm, transposer as tr
    name = lambda l, a: LETTERS[l] + ('+' * a if a > 0 else '-' * (-a))  # noqa
    recs = []
    obj = None
    ex = pm.HumdrumPitchExporter()
    for h in hist:
        r = {'op': 'objstep', 'kind': h['op'], 'l': h['l'], 'a': h['a'], 'o': h['o'], 'iv': '', 'up': False, 'ok': True, 'rname': '', 'roct': 0,
             'val': 0, 'out': []}
        try:
            if h['op'] == 'new':
                obj = pm.AgnosticPitch(name(h['l'], h['a']), h['o'])
            elif h['op'] == 'setname':
                obj.name = name(*h['args'])
            elif h['op'] == 'setoct':
                obj.octave = h['args'][0]
            elif h['op'] == 'chroma':
                r['val'] = int(obj.get_chroma())
            elif h['op'] == 'export':
                r['out'] = cps(ex.export_pitch(obj))
            elif h['op'] == 'transpose':
                iv, up = h['args']
                r.update(iv=iv, up=bool(up))
                ok, q = safe(tr.transpose_agnostics, obj, tr.IntervalsByName[iv], direction=fresh('up' if up else 'down'))
                r['ok'] = ok
                if ok:
                    r.update(rname=str(q.name), roct=int(q.octave))
                    try:                       # the result belongs to the caller: it is moved elsewhere after it was recorded
                        q.octave = int(q.octave) + 3
                        q.name = 'G--'
                    except Exception:  # noqa
                        pass
        except Exception as e:  # noqa  an exception of a setter / getter is an observation
            r['ok'] = False
            r['exc'] = type(e).__name__
        r['name'] = str(obj.name) if obj is not None else ''
        r['oct'] = int(obj.octave) if obj is not None else 0
        recs.append(r)
    return recs
