"""C12 - malformed tokens are isolated, reported once and preserved.

model:    spec/ImporterHistory.tla (one importer object under a token history: the outcome is a function of the cell alone),
          spec/SpinePaths.tla (Row: one error <<line, text>> per malformed cell of a kern-like spine, node category ERROR,
          text verbatim; Blank lines advance the line counter)
MC:       MC_ImporterHistory: all histories of length <= 4 (quick) / 5 (thorough) over valid and malformed tokens:
          OutcomeIndependent, NothingPending, OnlyLastMatters
binding:  (a) every enumerated history is replayed into ONE real KernSpineImporter (outcome and the listener's error count after
          each call) and validated by TLC (Trace_Importer); plus long random histories on **kern and **root importers;
          (b) random documents of C01's grammar with 1..4 cells replaced by malformed text (unknown characters, wrong order,
          truncated, inner garbage) in kern and non-kern spines, blank lines and global comments interleaved: the recorded import
          (tokens per line, error list with line numbers) and the exact default / eKern exports are validated by TLC (Trace_Session).
"""
from __future__ import annotations

import random

from ..common import Run, main_wrapper, parse_args, MachineryError, cps, uncps
from .. import tlc, session, gen
from . import docs, docprops as dp, imphist

STRICT = ['U4c', 'h', '%4c', ',', '&&', '#c', '-4c', '|', '+', '4', '16.', '*clef', '*k[', '*M4', '=:', 'c4', 'r4', '4#c', '4Uc', '=!1',
          '*clef!G2', 'Zz9', '4c 4', 'ñ', '4ñc',
          # a rest followed by a signifier the grammar allows on notes only (the recovering parser tries a chord)
          '4rx', '4r^', '8.r:', '4rL', '4r~', '4r_', '4rM', 'r;x', '4r 4',
          # a character the LEXER does not know, appended / prepended / inserted (reported by the lexer, not the parser)
          '4c§', '§4D', '4§f#', '*M3€/4', '4r¿', '€', '=1§', '*clef§G2',
          # blanks at the end of the cell (also of the LAST cell of a line): reported, and kept verbatim
          'c4 ', '4zz ', '4d ', '4r  ', '4c\xa0',
          # truncated interpretations (the recovering parser hands the listener an incomplete tree)
          '*xywh', '*xywh-1', '*xywh-1:10,20,300', '*xywh-1:2,3,45', '*xywh-1:,2,3,4', '*xywh-1:1,2,3,', '*xywh-1:a,b,c,d', '*MM', '*met(', '*M4/',
          '*clefX2', '*k[f#', '*>', '*tb', '*staff', '*staffx']
STOPPER = ['4cU', '4c%', '=1zz', '*clefG2x', '*zz', '*M4/4x', '4rU', '.x']      # a complete token + something that cannot continue it (D7)
_HIST = []


def hist_worker(i):
    h = _HIST[i]
    return imphist.replay_history(uncps(h['ht']), h['seen'], fresh_reference=True)


def mutate(r, text):
    """a random edit of a valid token text: whether the result is malformed is NOT decided here (fuzz class)"""
    alpha = 'abcdefgrxyLJ0123456789#-.[]()_;:^~/\\|=*!UH%&? '
    t = list(text)
    for _ in range(r.choice([1, 1, 2])):
        k = r.random()
        i = r.randrange(len(t) + 1)
        if k < 0.4:
            t.insert(i, r.choice(alpha))
        elif k < 0.7 and t:
            del t[min(i, len(t) - 1)]
        elif len(t) > 1:
            j = min(i, len(t) - 2)
            t[j], t[j + 1] = t[j + 1], t[j]
    s = ''.join(t).replace('\t', '')
    return s if s else 'U'


def long_history(seed):
    r = random.Random(seed)
    g = gen.DocGen(r)
    ht = r.choice(['**kern', '**kern', '**root'])
    cells = []
    for _ in range(30):
        k = r.random()
        if k < 0.2:
            # fuzz: judged only against the same text on a FRESH importer (history independence), not against a class
            base = r.choice([gen.note_cell(g.note()), gen.note_cell(g.rest()), g.chord(), g.bar(3), g.interp_cell('**kern')])
            cells.append(gen.lit('fuzz', mutate(r, uncps(base['t']))))
        elif k < 0.4:
            cells.append(gen.lit('err', r.choice(STRICT)))
        elif k < 0.6:
            cells.append(gen.note_cell(g.note()))
        elif k < 0.7:
            cells.append(g.chord())
        elif k < 0.8:
            cells.append(g.bar(r.randint(1, 9)))
        else:
            cells.append(g.interp_cell('**kern'))
    return imphist.replay_history(ht, cells, fresh_reference=True)


def sess_damaged(seed, explore=False):
    r, lines, types = dp.make_doc(seed, 'main', blank_lines=True, max_rows=18)
    import copy
    clean = copy.deepcopy(lines)
    cand = []
    for li, e in enumerate(lines):
        if e['ev'] == 'row' and not ({c['k'] for c in e['cells']} & {'split', 'join', 'term'}) and not all(c['k'] == 'fcom' for c in e['cells']):
            for ci in range(len(e['cells'])):
                cand.append((li, ci))
    damaged = []
    classes = set()
    if cand:
        # spine type of each cell: follow the description with the independent tracker
        tmap = {}
        for e, paths in gen.path_tracker(lines):
            tmap[id(e)] = [types[p['spine']] for p in paths]
        picks = []
        for (li, ci) in r.sample(cand, min(len(cand), r.choice([1, 1, 2, 3, 4]))):
            bad = r.choice(STOPPER if explore else STRICT)
            picks.append((li, ci, bad))
            if r.random() < 0.3:                 # the SAME malformed text in other cells of the same line (one error per cell, not per text)
                picks += [(li, cj, bad) for cj in range(len(lines[li]['cells'])) if cj != ci and r.random() < 0.6]
        done = set()
        for (li, ci, bad) in picks:
            if (li, ci) in done:
                continue
            done.add((li, ci))
            e = lines[li]
            ht = tmap[id(e)][ci]
            if ht in gen.KERNLIKE:
                e['cells'][ci] = gen.lit('err', bad)
                if explore:
                    classes.add('valid_plus_stopper_suffix')
            else:
                if explore and bad[0] in '=*.':
                    classes.add('shared_prefix_plus_suffix')
                e['cells'][ci] = gen.lit('text', bad)
            damaged.append((li, ci, bad))
    try:
        import kernpy as kp
        kp.loads(session.render(clean))
    except Exception:  # noqa  the UNDAMAGED text does not import: not a statement about malformed cells (C02's business)
        s = dp.finish_session(lines, [], session.render(lines), seed, {'undamaged-import-raises'}, classes)
        s['damaged'] = []
        return s
    evs, doc, text = session.record_import(lines)
    if doc is not None:
        evs.append(session.record_call(doc, {'op': 'dumps', 'args': session.dumps_args(), 'exact': True, 'malformed': True}))
        evs.append(session.record_call(doc, {'op': 'dumps', 'args': session.dumps_args(enc='ekern'), 'exact': True, 'malformed': True}))
        # every OTHER token exactly as without the damage: the same code imports the undamaged text, node by node
        same = others_unchanged(doc, clean, damaged)
        evs.append({'ev': 'call', 'op': 'flag', 'name': 'import.others_as_without_damage', 'value': same, 'args': {}, 'snap': evs[-1]['snap']})
    s = dp.finish_session(lines, evs, text, seed, dp.features(lines) | {'damaged:%d' % len(damaged)}, classes)
    s['damaged'] = damaged
    return s


def others_unchanged(doc, clean_lines, damaged):
    import kernpy as kp
    try:
        ref, _ = kp.loads(session.render(clean_lines))
    except Exception:  # noqa
        return False
    if [len(s) for s in doc.tree.stages] != [len(s) for s in ref.tree.stages]:
        return False
    hit = set()
    k = 0
    stage_of_line = {}
    for li, e in enumerate(clean_lines):
        if e['ev'] != 'blank':
            k += 1
            stage_of_line[li] = k
    for (li, ci, _bad) in damaged:
        hit.add((stage_of_line[li], ci))
    pa, pb = session.positions(doc), session.positions(ref)
    for si, (sa, sb) in enumerate(zip(doc.tree.stages, ref.tree.stages)):
        for ci, (na, nb) in enumerate(zip(sa, sb)):
            if (si, ci) in hit or na.token is None:
                continue
            ta, tb = na.token, nb.token
            if (type(ta).__name__, ta.category, ta.encoding, ta.hidden) != (type(tb).__name__, tb.category, tb.encoding, tb.hidden):
                return False
            if session.ptr(pa, na.parent) != session.ptr(pb, nb.parent):
                return False
            if hasattr(ta, 'pitch_duration_subtokens') and ([(x.encoding, x.category) for x in ta.pitch_duration_subtokens + ta.decoration_subtokens]
                                                            != [(x.encoding, x.category) for x in tb.pitch_duration_subtokens + tb.decoration_subtokens]):
                return False
    return True


def main():
    a = parse_args()
    quick = a.tier == 'quick'
    run = Run('C12', a.tier, a.seed, assumptions=[
        'I6: malformed texts contain neither "@" nor the decoration separator',
        'malformed = no proper prefix of the text is a complete token (strict classes); a complete token followed by a character that '
        'cannot continue it is the explored class valid_plus_stopper_suffix (D7)'])
    run.rule = ('(a) every history of length <= %d over 4 valid + 4 malformed tokens on one KernSpineImporter, + 30-call random histories; '
                '(b) random documents with 1..4 damaged cells; non-trivial = distinct histories containing a valid token after a malformed '
                'one, and documents whose damage hits a kern-like spine') % (4 if quick else 5)
    run.note('explored_classes', ['valid_plus_stopper_suffix', 'shared_prefix_plus_suffix'])
    mc = tlc.run_tlc('MC_ImporterHistory', 'MC_ImporterHistory_q.cfg' if quick else 'MC_ImporterHistory_t.cfg', workers=8, timeout=1800)
    run.add_tlc(mc)
    global _HIST
    _HIST = mc.vp
    if not _HIST:
        raise MachineryError('no history emitted')
    if a.replay_case:
        case = a.replay_case['case']
        if 'cells' in case:
            logs = [imphist.replay_history(case['header'], case['cells'], fresh_reference=True)]
            imphist.validate(run, logs, [{}])
        else:
            docs.validate_sessions(run, docs.replay_sessions(a.replay_case), relevant=docs.relevant_for(run.pid))
        return run.finish()
    import multiprocessing as mp
    with mp.get_context('fork').Pool(16) as pool:
        logs = pool.map(hist_worker, range(len(_HIST)), chunksize=64)
        logs += pool.map(long_history, [a.seed * 7919 + i for i in range(200 if quick else 3000)], chunksize=8)
    imphist.validate(run, logs, [{} for _ in logs])
    for log in logs:
        oks = [e['cell']['k'] != 'err' for e in log[1:]]
        if any((not x) and any(oks[i + 1:]) for i, x in enumerate(oks)):
            run.nontrivial.add(tuple(tuple(e['cell']['t']) for e in log[1:]))
    run.note('histories', len(logs))
    n = 260 if quick else 5000
    sess = docs.build_sessions(sess_damaged, [a.seed * 1000003 + i for i in range(n)])
    nx = 40 if quick else 500
    sx = docs.build_sessions(sess_damaged, [a.seed * 1000003 + 500000000 + i for i in range(nx)], explore=True)
    for s in sx:
        s['tags'] = list(s['tags']) + ['explored']
    docs.selftest_session(next(s for s in sess if len(s['log']) > 10))
    docs.validate_sessions(run, sess + sx, relevant=docs.relevant_for(run.pid))
    for s in sess:
        if s['damaged']:
            run.nontrivial.add(s['text'])
    run.evaluations = len(logs) + len(sess) + len(sx)
    run.note('damaged_documents', n)
    run.sample({'history': imphist.describe(logs[7][-1]), 'header': uncps(logs[7][0]['ht']), 'before': [uncps(e['cell']['t']) for e in logs[7][1:-1]]})
    s = next(s for s in sess if s['damaged'])
    run.sample({'text': s['text'][:500], 'damaged_cells(line,col,text)': s['damaged']})
    run.exhaustive = False
    return run.finish()


if __name__ == '__main__':
    main_wrapper(main)
