"""C15 - transposing a document moves pitches and nothing else.

model:    spec/Transform.tla: TransposedStages(iv, up) = the document value whose **kern note cells carry the pitch
          Pitch!RefT(pitch, interval, direction) and which is otherwise identical; AllSpellable; the exporter applied to that
          value (parametrised instance On(stages, mstarts))
MC:       MC_Pitch (the interval arithmetic, C09) + MC_Transform: on every closed state of the bounded importer machine and a
          family of intervals: OnlyPitchesMove, RoundTripOnModel
binding:  random documents x intervals x directions: dumps(source), to_transposed, dumps(result), dumps(source) again,
          transpose back, dumps; TLC validates the result grid against TransposedGrid cell by cell, the round trip against the
          logged source export, and that the source (export and deep snapshot) is unchanged.
          Populations: core = single notes without explicit accidentals, no chords, no **root spine (strict);
          explored = accidentals, chords, **root spines; the state of the source after the call is explored in every document.
"""
from __future__ import annotations

import random

from ..common import Run, main_wrapper, parse_args, MachineryError, cps, uncps, fresh
from .. import tlc, session, gen
from . import docs, docprops as dp

QUALS_P = ['dd', 'd', 'P', 'A', 'AA']
QUALS_M = ['dd', 'd', 'm', 'M', 'A', 'AA']
INTERVALS = [q + str(n) for n in range(1, 8) for q in (QUALS_P if n in (1, 4, 5) else QUALS_M)] + ['octave']
assert len(INTERVALS) == 40


def res_of(f):
    try:
        return {'ok': True, 'grid': session.grid_of(f()), 'exc': ''}
    except Exception as ex:  # noqa
        return {'ok': False, 'grid': [], 'exc': type(ex).__name__}


def sess_transpose(seed, core=True, ncalls=12, rows=12):
    import kernpy as kp
    over = dict(max_rows=rows, types=['**kern', '**text', '**dynam', '**harm', '**fing'] + ([] if core else ['**root']))
    if rows > 100:                               # a LONG score (several hundred lines): what a copy of the tree costs depends on its depth
        over.update(min_rows=rows - 30, max_spines=2, early_term=False)
    if core:
        over.update(chords='none', accdisp=False)
    r, lines, types = dp.make_doc(seed, 'main', **over)
    classes = set()
    for c in gen.all_cells(lines):
        ns = [c['n']] if c['k'] == 'note' else c['ns'] if c['k'] == 'chord' else []
        for n in ns:
            if core and n['acc']:
                n['acc'] = []                    # core: no explicit accidentals
        if ns and core:
            c['t'] = gen.note_text(ns[0])
        if not core:
            if c['k'] == 'chord':
                classes.add('chord')
            if any(n['acc'] and not n['rest'] for n in ns):
                classes.add('note_with_accidental')
    if '**root' in types:
        classes.add('root_spine')
    has_note = any(c['k'] in ('note', 'chord') and any(not n['rest'] for n in ([c['n']] if c['k'] == 'note' else c['ns'])) for c in gen.all_cells(lines))
    if has_note:
        classes.add('has_note')
    if any(c['k'] == 'note' for c in gen.all_cells(lines)):
        classes.add('has_note_or_rest')              # every single note AND rest node gets a new token object
    evs, doc, text = session.record_import(lines)
    if doc is not None:
        evs.append(session.record_call(doc, {'op': 'dumps', 'args': session.dumps_args(), 'exact': True}))
        ref = len(evs)
        for iv in r.sample(INTERVALS, ncalls):
            up = r.random() < 0.5
            d = fresh('up' if up else 'down') if (len(evs) + int(up)) % 2 else ('up' if up else 'down')   # an ordinary string / the literal
            # every transposition starts from a FRESH import of the same text (the source-mutation finding must not leak
            # from one transposition into the next one)
            src, _ = kp.loads(text)
            ev = {'ev': 'transpose', 'iv': iv, 'up': up, 'ref': ref}
            state = {}

            def fwd():
                state['t'] = src.to_transposed(iv, d)
                return kp.dumps(state['t'])
            ev['res'] = res_of(fwd)
            ev['src_after'] = res_of(lambda: kp.dumps(src))
            ev['snap'] = session.snapshot(src)
            if ev['res']['ok']:
                if core:
                    # the transposed document is a document like any other: its agnostic export is that of the transposed notes
                    # (taken BEFORE the way back: transposing the result again rewrites it too - finding D14)
                    ev['res_agn'] = res_of(lambda: kp.dumps(state['t'], encoding=kp.Encoding.agnosticExtendedKern))
                ev['back'] = res_of(lambda: kp.dumps(state['t'].to_transposed(iv, fresh('down' if up else 'up'))))
            else:
                ev['back'] = {'ok': False, 'grid': [], 'exc': ''}
            evs.append(ev)
    return dp.finish_session(lines, evs, text, seed, dp.features(lines) | {'core' if core else 'explored'}, classes)


def sess_repetition(seed, target_rows=1150):
    """A VERY long score (more than a thousand lines: deeper than Python's default recursion limit) built as K repetitions of a short
    block.  The short score is validated by TLC like any other; the long one must give K times the short score's transposed block
    (transposition is note by note) - a comparison between real outputs, logged as a flag."""
    import kernpy as kp
    over = dict(max_rows=9, min_rows=5, types=['**kern', '**text'], max_spines=2, splits=False, chords='none', accdisp=False,
                pre_comments=False, post_comments=False, mid_comments=False, first_kern=1.0)
    r, lines, types = dp.make_doc(seed, 'main', **over)
    for c in gen.all_cells(lines):
        if c['k'] == 'note':
            c['n']['acc'] = []
            c['t'] = gen.note_text(c['n'])
    evs, doc, text = session.record_import(lines)
    classes = {'has_note_or_rest'} if any(c['k'] == 'note' for c in gen.all_cells(lines)) else set()
    if doc is None or len(lines) < 3:
        return dp.finish_session(lines, evs, text, seed, {'repetition'}, classes)
    evs.append(session.record_call(doc, {'op': 'dumps', 'args': session.dumps_args(), 'exact': True}))
    ref = len(evs)
    block = lines[1:-1]
    K = max(2, -(-target_rows // max(1, len(block))))
    long_text = session.render([lines[0]] + block * K + [lines[-1]])
    for iv in r.sample(INTERVALS, 2):
        up = r.random() < 0.5
        d = fresh('up' if up else 'down')
        src, _ = kp.loads(text)
        ev = {'ev': 'transpose', 'iv': iv, 'up': up, 'ref': ref}
        state = {}

        def fwd():
            state['t'] = src.to_transposed(iv, d)
            return kp.dumps(state['t'])
        ev['res'] = res_of(fwd)
        ev['src_after'] = res_of(lambda: kp.dumps(src))
        ev['snap'] = session.snapshot(src)
        ev['back'] = res_of(lambda: kp.dumps(state['t'].to_transposed(iv, fresh('down' if up else 'up')))) if ev['res']['ok'] else {'ok': False, 'grid': [], 'exc': ''}
        evs.append(ev)
        # the long score
        try:
            big, _ = kp.loads(long_text)
            out = session.grid_of(kp.dumps(big.to_transposed(iv, d)))
            long_res = ('ok', out)
        except Exception as ex:  # noqa
            long_res = ('exc', type(ex).__name__)
        if ev['res']['ok']:
            g = ev['res']['grid']
            want = ('ok', g[:1] + g[1:-1] * K + g[-1:])
        else:
            want = ('exc', long_res[1] if long_res[0] == 'exc' else '')       # the short score is not transposable: neither is the long one
        evs.append({'ev': 'call', 'op': 'flag', 'name': 'transpose.long_score_equals_repetition_of_the_short_result', 'value': long_res == want,
                    'args': {}, 'snap': evs[ref - 1]['snap'] if 'snap' in evs[ref - 1] else ''})
    return dp.finish_session(lines, evs, text, seed, dp.features(lines) | {'core', 'repetition:%d' % K}, classes)


def symptom_of(clause, ev, s):
    return clause


def main():
    a = parse_args()
    quick = a.tier == 'quick'
    run = Run('C15', a.tier, a.seed, assumptions=[
        'the transposed document is compared through its default (kern) export',
        'a result needing three accidentals is unconstrained (the call may fail or not)',
        'core = single notes without explicit accidentals, no chords, no **root spine; everything else is explored (property text)'])
    run.rule = ('seeded documents x 12 (interval, direction) pairs out of 80 each (all 80 covered across documents); non-trivial = '
                'distinct (document, interval, direction) whose document has a note and whose interval is not the unison')
    run.note('explored_classes', ['has_note_or_rest', 'chord', 'note_with_accidental', 'root_spine'])
    run.add_tlc(tlc.run_tlc('MC_Pitch', workers=8, timeout=900))
    run.add_tlc(tlc.run_tlc('MC_Transform', 'MC_Transform.cfg', workers=16, timeout=3000))
    if a.replay_case:
        sess = docs.replay_sessions(a.replay_case)
    else:
        n = 60 if quick else 900
        sess = docs.build_sessions(sess_transpose, [a.seed * 1000003 + i for i in range(n)], core=True)
        nx = 40 if quick else 500
        sess += docs.build_sessions(sess_transpose, [a.seed * 1000003 + 300000000 + i for i in range(nx)], core=False)
        nl = 2 if quick else 16
        long_ = docs.build_sessions(sess_transpose, [a.seed * 1000003 + 600000000 + i for i in range(nl)], core=True, ncalls=2, rows=320)
        for s in long_:
            s['tags'] = list(s['tags']) + ['long-score']
        sess += long_
        run.note('long_scores', nl)
        nr = 3 if quick else 24
        sess += docs.build_sessions(sess_repetition, [a.seed * 1000003 + 700000000 + i for i in range(nr)])
        run.note('very_long_scores_by_repetition', nr)
    docs.validate_sessions(run, sess, symptom_of=symptom_of, relevant=docs.relevant_for(run.pid))
    ivs = set()
    for s in sess:
        for e in s['log']:
            if e['ev'] == 'transpose':
                ivs.add((e['iv'], e['up']))
                if 'has_note' in s['classes'] and e['iv'] != 'P1':
                    run.nontrivial.add((s['text'], e['iv'], e['up']))
    run.evaluations = sum(1 for s in sess for e in s['log'] if e['ev'] == 'transpose')
    run.note('distinct_interval_direction_pairs', len(ivs))
    s = next(s for s in sess if 'has_note' in s['classes'])
    e = next(e for e in s['log'] if e['ev'] == 'transpose')
    run.sample({'text': s['text'][:300], 'interval': e['iv'], 'up': e['up'],
                'result': '\n'.join('\t'.join(uncps(c) for c in row) for row in e['res']['grid'])[:300] if e['res']['ok'] else e['res']['exc']})
    run.exhaustive = False
    return run.finish()


if __name__ == '__main__':
    main_wrapper(main)
