"""Driver shared by the document-level checks: build sessions in a process pool, validate them with Trace_Session,
turn failing clauses into violations / known findings."""
from __future__ import annotations

import copy
import multiprocessing as mp
import random

from ..common import NCPU, MachineryError, uncps
from .. import tlc, session, gen


def _worker(job):
    fn, seed, kw = job
    try:
        out = fn(seed, **kw)
        if isinstance(out, dict) and 'replay' not in out:
            # how to rebuild exactly this session later (bin/check <id> --replay <file>)
            out['replay'] = {'fn': fn.__module__ + ':' + fn.__name__, 'seed': seed, 'kw': kw}
            for m in out.get('multi', []) if isinstance(out.get('multi'), list) else []:
                m.setdefault('replay', dict(out['replay'], pick=m.get('tags')))
        return out
    except MachineryError as ex:
        return {'machinery': str(ex), 'seed': seed}
    except Exception as ex:  # noqa
        import traceback
        return {'machinery': 'session builder crashed: ' + traceback.format_exc()[-1500:], 'seed': seed}


def build_sessions(fn, seeds, **kw):
    """fn(seed, **kw) -> {'log': [...], 'text': str, 'classes': [...], 'tags': [...], ...}  (module-level function)."""
    jobs = [(fn, s, kw) for s in seeds]
    if len(jobs) < 8:
        out = [_worker(j) for j in jobs]
    else:
        with mp.get_context('fork').Pool(min(NCPU, 16)) as pool:
            out = pool.map(_worker, jobs, chunksize=max(1, len(jobs) // (NCPU * 4)))
    for o in out:
        if 'machinery' in o:
            raise MachineryError(f"seed {o['seed']}: {o['machinery']}")
    return out


def describe_event(ev):
    if ev['ev'] in ('row', 'header', 'surplus'):
        return f"{ev['ev']} {[uncps(c['t']) for c in ev['cells']]}"
    if ev['ev'] == 'global':
        return f"global {uncps(ev['cell']['t'])!r}"
    if ev['ev'] == 'call':
        a = ev.get('args', {})
        if ev['op'] in ('dumps', 'same_as') and a:
            d = {k: v for k, v in a.items() if k in ('enc', 'ids', 'inc', 'exc', 'from', 'to', 'allids', 'incall', 'alltypes', 'hasfrom', 'hasto')}
            d['types'] = [uncps(t) for t in a.get('types', [])]
            r = ev.get('res')
            got = ('\n'.join('\t'.join(uncps(c) for c in row) for row in r['grid']) if r['ok'] else 'raised ' + r['exc']) if isinstance(r, dict) else str(r)
            return f"{ev['op']}({d}) -> {got!r}"
        return f"{ev['op']}({ {k: v for k, v in a.items()} }) -> {str(ev.get('res'))[:300]}"
    return ev['ev']


def selftest_session(sess):
    """The binding must reject a log in which one observed value is corrupted (and accept nothing less)."""
    good = sess['log']
    bad = copy.deepcopy(good)
    target = None
    for i, e in enumerate(bad):
        if e['ev'] == 'row' and e['obs']['stage'] and e['obs']['stage'][0][0] > 2:
            e['obs']['stage'][0][1] += 1          # parent position of the first node
            target = (i + 1, 'row.tree')
            break
    if target is None:
        return
    bad2 = copy.deepcopy(good)
    t2 = None
    for i, e in enumerate(bad2):
        if e['ev'] == 'call' and e['op'] == 'dumps' and isinstance(e['res'], dict) and e['res']['ok'] and e['res']['grid'] \
                and not e['args']['hasfrom'] and not e['args']['hasto']:
            cell = e['res']['grid'][-1][0]
            e['res']['grid'][-1][0] = cell + [88]
            t2 = (i + 1, 'dumps.grid')
            break
    logs = [bad] + ([bad2] if t2 else [])
    v, _ = tlc.validate_traces('Trace_Session', logs, shards=1)
    if list(target) not in v[0].fails:
        raise MachineryError(f'binding self-test failed: corrupted tree observation accepted ({v[0]})')
    if t2 and list(t2) not in v[1].fails and [t2[0], 'base.grid'] not in v[1].fails:
        raise MachineryError(f'binding self-test failed: corrupted export grid accepted ({v[1]})')


def validate_sessions(run, sessions, *, symptom_of=None, shards=None, interesting=None, relevant=None):
    """Validates all session logs; reports each failing clause.  symptom_of(clause, event, session) -> symptom name used
    for matching known findings (default: the clause name).

    relevant: the clause-name prefixes that belong to the property under check.  The trace specification checks much more
    than any single property (the tree, token categories, the measure index, the page index ... after every line); a failing
    clause that belongs to ANOTHER property (or to no listed property) is not a violation of this one: it is counted and
    printed as NOTE-OUTSIDE-PROPERTY and does not change the verdict.  'blocked' = the row machine does not accept the line."""
    def is_rel(clause):
        return relevant is None or any(clause == r or clause.startswith(r) for r in relevant)
    outside = {}
    sessions = [s for s in sessions if s['log']]          # a builder may decline (empty log): nothing recorded, nothing judged
    logs = [s['log'] for s in sessions]
    verdicts, tl = tlc.validate_traces('Trace_Session', logs, shards=shards, timeout=2400)
    for t in tl:
        run.add_tlc(t)
    run.traces += len(logs)
    nfail = 0
    for s, v in zip(sessions, verdicts):
        classes = set(s.get('classes', ()))
        if v.reached != v.length and not is_rel('blocked'):
            outside['blocked'] = outside.get('blocked', 0) + 1
            continue
        if v.reached != v.length:
            ev = s['log'][v.reached] if v.reached < len(s['log']) else {}
            nfail += 1
            run.violation({'text': s.get('text'), 'event_index': v.reached + 1, 'event': ev, 'tags': s.get('tags'), 'seed': s.get('seed'),
                           'replay': s.get('replay'), 'case_id': s.get('case_id')},
                          f"the specification's row machine does not allow event {v.reached + 1} ({describe_event(ev)[:200]}) "
                          f"of this recorded session", classes=classes, symptom='blocked',
                          case_key=(s['case_id'] + '|blocked') if s.get('case_id') else None)
            continue
        seen = set()
        for pos, clause in v.fails:
            if not is_rel(clause):
                outside[clause] = outside.get(clause, 0) + 1
                continue
            ev = s['log'][pos - 1]
            sym = symptom_of(clause, ev, s) if symptom_of else clause
            cl = set(classes) | set(ev.get('_classes', ()))
            key = (clause, ev.get('op'))
            if key in seen and not run.match_known(cl, sym):
                continue                     # one report per clause and call kind per session
            seen.add(key)
            nfail += 1
            run.violation({'text': s.get('text'), 'event_index': pos, 'clause': clause, 'event': {k: v2 for k, v2 in ev.items() if k != 'snap'},
                           'tags': s.get('tags'), 'seed': s.get('seed'), 'replay': s.get('replay'), 'case_id': s.get('case_id')},
                          f"clause {clause} fails at event {pos}: {describe_event(ev)[:400]} | document: {s.get('text', '')[:300]!r}",
                          classes=cl, symptom=sym, case_key=(f"{s['case_id']}|{sym}|{pos}") if s.get('case_id') else None)
    if outside:
        for c, n in sorted(outside.items()):
            print(f'NOTE-OUTSIDE-PROPERTY: property={run.pid} clause={c} failed {n} time(s); it belongs to another property (or to behaviour '
                  f'no listed property covers) and is not counted here')
        run.note('outside_property_deviations', outside)
    return nfail


def relevant_for(pid):
    """clause-name prefixes of Trace_Session that belong to a property (harness/checks/relevant.json)."""
    import json
    import os
    with open(os.path.join(os.path.dirname(__file__), 'relevant.json')) as f:
        return json.load(f).get(pid)


def replay_sessions(replay_file_content):
    """Rebuilds the session(s) of a stored violation by calling its builder again on the CURRENT code."""
    import importlib
    case = replay_file_content['case']
    rp = case.get('replay')
    if not rp:
        raise MachineryError('this replay file does not say how to rebuild its session')
    mod, fn = rp['fn'].split(':')
    f = getattr(importlib.import_module(mod), fn)
    out = f(rp['seed'], **rp.get('kw', {}))
    sess = out.get('multi') if isinstance(out, dict) and isinstance(out.get('multi'), list) and out.get('multi') else [out]
    if rp.get('pick'):
        sess = [s for s in sess if s.get('tags') == rp['pick']] or sess
    for s in sess:
        s.setdefault('tags', case.get('tags') or [])
        if case.get('case_id'):
            s['case_id'] = case['case_id']
        s['replay'] = rp
    return sess
