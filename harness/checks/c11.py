"""C11 - category algebra follows the documented tree.

model:    spec/Categories.tla (documented tree -> parents, two closures, valid/match algebra)
MC:       MC_Categories: Forest, closures agree, ValidLaws over every include/exclude pair of sets of size <= 1 (quick)
          / <= 2 (thorough, 704 x 704)
binding:  every answer of kernpy's category API over the same finite space is recorded and validated by TLC
          (Trace_Categories): is_child 37x37, children/nodes/leaves/all/tree, valid + match over the pair space,
          random larger sets, list/tuple/set/single/None argument forms.
"""
from __future__ import annotations

import itertools
import random

from ..common import Run, main_wrapper, parse_args, MachineryError
from .. import tlc


def record_all(tier, seed):
    import kernpy as kp
    C = kp.TokenCategory
    cats = list(C)
    rnd = random.Random(seed)
    recs = []

    def rec(op, a='', b='', incall=False, inc=(), exc=(), res=(), resb=False):
        recs.append({'op': op, 'a': a, 'b': b, 'incall': incall, 'inc': list(inc), 'exc': list(exc), 'res': list(res),
                     'resb': bool(resb)})

    def names(xs):
        try:
            return sorted(x.name if isinstance(x, C) else 'NOT-A-CATEGORY:' + repr(x) for x in xs)
        except Exception as ex:  # noqa
            return ['EXC:' + type(ex).__name__]

    returned = []

    def call(f, *a, **k):
        try:
            r = f(*a, **k)
        except Exception as ex:  # noqa
            return ex
        if isinstance(r, (set, list)):
            returned.append(r)          # a returned collection belongs to the caller: it is emptied / polluted after it was recorded
        return r

    def spoil_returned():
        for i, r in enumerate(returned):
            try:
                if i % 2:
                    r.clear()
                elif isinstance(r, set):
                    r.symmetric_difference_update({cats[i % len(cats)], cats[(i * 7 + 3) % len(cats)]})
                else:
                    r.append(cats[i % len(cats)])
            except Exception:  # noqa
                pass
        returned.clear()

    rec('enum', res=names(cats))
    r = call(C.all)
    rec('all', res=['EXC'] if isinstance(r, Exception) else names(r))
    r = call(kp.TokenCategoryHierarchyMapper.all)
    rec('all', res=['EXC'] if isinstance(r, Exception) else names(r))
    t = call(C.tree)
    lines = []
    if not isinstance(t, Exception):
        for ln in t.split('\n')[1:]:
            for conn in ('├── ', '└── '):
                k = ln.find(conn)
                if k >= 0:
                    lines.append([k // 4, ln[k + 4:].replace('TokenCategory.', ''), conn == '└── '])
                    break
            else:
                lines.append([99, ln, False])
    rec('tree', res=lines)
    for p in cats:
        for op, f in (('children', C.children), ('nodes', C.nodes), ('leaves', C.leaves)):
            r = call(f, p)
            rec(op, a=p.name, res=['EXC:' + type(r).__name__] if isinstance(r, Exception) else names(r))
        for c in cats:
            r = call(C.is_child, child=c, parent=p)
            rec('is_child', a=p.name, b=c.name, resb=(r is True), res=[] if isinstance(r, bool) else ['NOT-BOOL'])

    # what the API handed out is now modified by the caller; the answers must stay those of the documented tree
    spoil_returned()
    for p in cats:
        for op, f in (('children', C.children), ('nodes', C.nodes), ('leaves', C.leaves)):
            r = call(f, p)
            rec(op, a=p.name, res=['EXC:' + type(r).__name__] if isinstance(r, Exception) else names(r))
        for c in rnd.sample(cats, 12):
            r = call(C.is_child, child=c, parent=p)
            rec('is_child', a=p.name, b=c.name, resb=(r is True), res=[] if isinstance(r, bool) else ['NOT-BOOL'])
    r = call(C.all)
    rec('all', res=['EXC'] if isinstance(r, Exception) else names(r))

    kept = {}

    def keep(kind):
        # a caller keeps its sets / lists: the SAME object is handed in whenever the same selection recurs in the same form
        def make(xs):
            key = (kind.__name__, tuple(x.name for x in xs))
            if key not in kept:
                kept[key] = kind(xs)
            return kept[key]
        return make
    forms = [keep(set), keep(list), lambda s: tuple(s)]

    def do_valid(inc, exc, form_i=0, form_e=0, match_cats=()):
        """inc: None or iterable of categories."""
        fi = forms[form_i % 3]
        fe = forms[form_e % 3]
        kw = {}
        if inc is not None:
            kw['include'] = inc[0] if (form_i == 3 and len(inc) == 1) else fi(inc)
        if exc is not None:
            kw['exclude'] = exc[0] if (form_e == 3 and len(exc) == 1) else fe(exc)
        r = call(C.valid, **kw)
        rec('valid', incall=inc is None, inc=[x.name for x in (inc or ())], exc=[x.name for x in (exc or ())],
            res=['EXC:' + type(r).__name__] if isinstance(r, Exception) else names(r))
        for c in match_cats:
            m = call(C.match, c, **kw)
            rec('match', a=c.name, incall=inc is None, inc=[x.name for x in (inc or ())],
                exc=[x.name for x in (exc or ())], resb=(m is True), res=[] if isinstance(m, bool) else ['NOT-BOOL'])

    singles = [None] + [[c] for c in cats]            # None = default
    k = 0
    for inc in [None, []] + [[c] for c in cats]:
        for exc in [None, []] + [[c] for c in cats]:
            k += 1
            do_valid(inc, exc, form_i=k % 4, form_e=(k // 4) % 4, match_cats=cats)
    if tier == 'thorough':
        small = [[]] + [[c] for c in cats] + [list(p) for p in itertools.combinations(cats, 2)]
        for inc in small:
            for exc in small:
                if len(inc) <= 1 and len(exc) <= 1:
                    continue
                k += 1
                do_valid(inc, exc, form_i=k % 3, form_e=(k // 3) % 3, match_cats=rnd.sample(cats, 1))
    # structured family: an inner category included, ALL (or all but one) of its children excluded, plus ancestors / descendants mixed in
    inner = [c for c in cats if call(C.children, c) and not isinstance(call(C.children, c), Exception)]
    for x in inner:
        ch = sorted(C.children(x), key=lambda c: c.name)
        gch = sorted({g for c in ch for g in C.children(c)}, key=lambda c: c.name)
        for inc in ([x], ch[:1], [x] + ch[:1], None):
            for exc in (ch, ch[1:], ch[:-1], gch, ch + gch[:2], gch + [x]):
                if exc:
                    k += 1
                    do_valid(inc, exc, form_i=k % 3, form_e=(k // 3) % 3, match_cats=cats)
    # random larger sets (after every collection returned so far was modified by the caller)
    spoil_returned()
    for n_ in range(400 if tier == 'quick' else 4000):
        if n_ % 50 == 49:
            spoil_returned()
        inc = rnd.sample(cats, rnd.randint(0, 8)) if rnd.random() < 0.85 else None
        exc = rnd.sample(cats, rnd.randint(0, 6)) if rnd.random() < 0.85 else None
        do_valid(inc, exc, form_i=rnd.randrange(3), form_e=rnd.randrange(3), match_cats=rnd.sample(cats, 3))
    return recs


def chunk(xs, n):
    return [xs[i:i + n] for i in range(0, len(xs), n)]


def main():
    a = parse_args()
    run = Run('C11', a.tier, a.seed, assumptions=[
        'the documented tree is the one in README.md (transcribed as Categories!Pre)',
        'argument forms exercised: set, list, tuple, single value, None'])
    run.rule = ('MC: every include/exclude pair of category sets of size <= %d on the model; binding: every recorded API '
                'answer is one trace step; non-trivial = distinct records whose arguments name at least one non-root or '
                'non-leaf category or whose include/exclude closures overlap') % (1 if a.tier == 'quick' else 2)
    mc = tlc.run_tlc('MC_Categories', 'MC_Categories_q.cfg' if a.tier == 'quick' else 'MC_Categories_t.cfg',
                     workers=4, timeout=1500, label='MC_Categories')
    run.add_tlc(mc)
    recs = record_all(a.tier, a.seed)
    if a.replay_case:
        st = a.replay_case['case']['record']
        recs = [r for r in recs if all(r.get(k) == st.get(k) for k in ('op', 'a', 'b', 'incall', 'inc', 'exc'))][:1]
        if not recs:
            raise MachineryError('replay: the stored input is not part of the recorded table any more')
    logs = chunk(recs, 400 if a.tier == 'quick' else 4000)
    # self-test of the binding: one corrupted record must be rejected
    probe = [dict(r) for r in recs[:50]]
    if not a.replay_case:
        # (whatever the implementation answered: the probe must not depend on the answers being right)
        victim = next(i for i, r in enumerate(probe) if r['op'] == 'children')
        probe[victim] = dict(probe[victim], res=(probe[victim]['res'][:-1] if probe[victim]['res'] else ['CORE', 'PITCH']))
        pv, _ = tlc.validate_traces('Trace_Categories', [probe], shards=1)
        if pv[0].accepted or [victim + 1, 'children'] not in pv[0].fails:
            raise MachineryError('binding self-test failed: a corrupted record was accepted')
    verdicts, tl = tlc.validate_traces('Trace_Categories', logs, timeout=1500)
    for t in tl:
        run.add_tlc(t)
    run.traces = len(recs)
    run.evaluations = len(recs) + mc.distinct
    run.exhaustive = True
    for r in recs:
        if r['op'] in ('valid', 'match'):
            if r['inc'] or r['exc']:
                run.nontrivial.add((r['op'], r['a'], r['incall'], tuple(sorted(r['inc'])), tuple(sorted(r['exc']))))
        elif r['op'] in ('is_child',):
            if r['a'] != r['b']:
                run.nontrivial.add((r['op'], r['a'], r['b']))
        else:
            run.nontrivial.add((r['op'], r['a']))
    for r in (recs[3], recs[40], recs[-1]):
        run.sample(r)
    for log, v in zip(logs, verdicts):
        if v.reached != v.length:
            raise MachineryError(f'trace blocked at {v.reached}/{v.length}')
        for (pos, clause) in v.fails:
            r = log[pos - 1]
            run.violation({'record': r, 'input': f"{r['op']}({r['a']},{r['b']},inc={r['inc']},exc={r['exc']},all={r['incall']})"},
                          f"kernpy's answer for {r['op']} a={r['a']} b={r['b']} include={'ALL' if r['incall'] else r['inc']} "
                          f"exclude={r['exc']} is {r['res'] or r['resb']}; Categories.tla disagrees",
                          classes=(), symptom=None)
    return run.finish()


if __name__ == '__main__':
    main_wrapper(main)
