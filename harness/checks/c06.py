"""C06 - spine selection is column projection.

model:    spec/Export.tla (Visible: the column -> spine assignment is the header a node descends from in the SpinePaths
          state), spec/Queries.tla (SpineTypes)
MC:       MC_SpinePaths with ProjectionLaw: in every closed state and for EVERY subset of spine ids the export equals the full
          export with the other columns deleted and all-null lines dropped
binding:  random documents (<= 4 spines, nested splits, splits and joins on the same line): dumps for all subsets of spine ids,
          subsets of the occurring (and absent) spine types, ids x types, spine_types(doc, headers); validated by TLC.
"""
from ..common import main_wrapper
from . import docprops as dp


def main():
    return dp.doc_main(
        'C06',
        assumptions=['the default spine_types is the nine known headers (unknown types are not exported by default): transcribed',
                     'spine ids that do not exist select nothing'],
        rule='per document: every subset of spine ids (<= 16), <= 16 subsets of spine types, 6 id x type combinations, spine_types '
             'queries; non-trivial = distinct documents with >= 2 spines and a split',
        mc=[('MC_SpinePaths', 'MC_SpinePaths_c06.cfg', 'MC_SpinePaths(ProjectionLaw)')],
        populations=[('main', dp.sess_c06, 150, 2500, {}),
                     # cells that look like null tokens but are not: their lines survive every projection that keeps their spine
                     ('dots', dp.sess_c06, 90, 600, {'dots': True}),
                     # added spines, several sections, documents without any measure: the header line of a projection may be a later line
                     ('added_spines_sections_no_measures', dp.sess_c06_ext, 40, 400, {})],
        nontrivial=lambda s: {'multi-spine', 'split'} <= set(s['tags']))


if __name__ == '__main__':
    main_wrapper(main)
