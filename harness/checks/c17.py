"""C17 - token queries agree with the tree and with each other.

model:    spec/Queries.tla (DfsOrder, WordedOrder, Listing, Filtered, Unique, FreqOf, MetaComments, Monophonic)
MC:       MC_SpinePaths with invariant ListingOrderOK in every closed state: the traversal order is the order the property
          words (pre-header comments, each spine depth-first left to right, later comments), every node exactly once
binding:  random documents with global comments before / inside / after the spines; get_all_tokens, get_unique_tokens,
          the *_encodings variants, frequencies, get_metacomments (with and without key), is_monophonic for all 37 single
          categories and random sets; every answer is validated by TLC (Trace_Session) against Queries.tla.
"""
from ..common import main_wrapper
from . import docprops as dp


def main():
    return dp.doc_main(
        'C17',
        assumptions=['token "encoding" = source text of the cell (barlines: normalised text, as the importer stores it)',
                     'category-set arguments are passed as list / set / tuple'],
        rule='seeded random documents; per document: unfiltered listing/unique/encodings/frequencies, one filtered listing per '
             'category (37) plus random sets, metacomment queries with 6 keys, is_monophonic; plus small documents around the '
             'monophony rule; non-trivial = distinct documents with >= 2 spines or a split or a global comment',
        mc=[('MC_SpinePaths', 'MC_SpinePaths_c17.cfg', 'MC_SpinePaths(ListingOrderOK)')],
        populations=[('main', dp.sess_c17, 120, 2500, {}),
                     ('shared_vocabulary', dp.sess_c17, 60, 800, {'shared_vocab': True}),
                     ('mono', dp.sess_c17_mono, 150, 2000, {})],
        nontrivial=lambda s: bool(set(s['tags']) & {'split', 'multi-spine', 'gcom', 'monophony-probe'}))


if __name__ == '__main__':
    main_wrapper(main)
