"""C14 - the read-only API is pure and history-independent.

model:    spec/Session.tla (a document under a history of read-only call kinds: ReadOnly, NeverTouched);
          Trace_Session!TCall: a call event leaves every SpinePaths variable unchanged and its result is computed from the
          state and the arguments alone
MC:       MC_Session: all histories of length <= 3 over the 32 call kinds (33,825 states) with the action property ReadOnly
binding:  TLC enumerates every history of length 2 (1,024) and simulates histories of length 12; each is replayed on a seeded
          document of C01's grammar.  After EVERY call a deep snapshot of the real document (every node, token, sub-token, flag,
          pointer, the measure index) and of the shared module-level defaults (HEADERS, BEKERN_CATEGORIES, hierarchy literal,
          chroma / interval tables) is logged, and the same call is made on a freshly imported copy; TLC validates: snapshot
          unchanged (call.readonly), result = result on the fresh copy, result = the specification's value, two imports of
          the same text have equal snapshots.
"""
from __future__ import annotations

import random

from ..common import Run, main_wrapper, parse_args, MachineryError, cps, uncps
from .. import tlc, session, gen
from . import docs, docprops as dp

A = lambda inc: {'incall': inc is None, 'inc': list(inc or [])}  # noqa
D = session.dumps_args
# the call kinds (index in this list + 1 = the number Session.tla uses)
CALLS = [
    {'op': 'dumps', 'args': D(), 'exact': True},
    {'op': 'dumps', 'args': D(enc='ekern'), 'exact': True},
    {'op': 'dumps', 'args': D(enc='bkern', exc=['DECORATION'])},
    {'op': 'dumps', 'args': D(enc='akern')},
    {'op': 'dumps', 'args': D(ids=[0])},
    {'op': 'dumps', 'args': D(types=['**kern'])},
    {'op': 'dumps', 'args': D(inc=['CORE', 'STRUCTURAL'])},
    {'op': 'dumps', 'args': D(frm=1, to=1), 'strict': False, '_clamp': True},
    {'op': 'dumps', 'args': D(frm=-3), 'strict': True},                       # raises ValueError
    {'op': 'dumps', 'args': D(to=99), 'strict': True},                        # raises ValueError
    {'op': 'dumps', 'args': D(frm=2, to=1), 'strict': True},                  # raises ValueError (or not: M < 1)
    {'op': 'listing', 'args': A(None)},
    {'op': 'listing', 'args': A(['NOTE_REST'])},
    {'op': 'unique', 'args': A(None)},
    {'op': 'uencodings', 'args': A(['SIGNATURES'])},
    {'op': 'freq', 'args': A(None)},
    {'op': 'meta', 'args': {'haskey': False, 'key': []}},
    {'op': 'meta', 'args': {'haskey': True, 'key': cps('COM')}},
    {'op': 'spine_types', 'args': {'alltypes': True, 'types': []}},
    {'op': 'spine_types', 'args': {'alltypes': False, 'types': [cps('**kern')]}},
    {'op': 'mono', 'args': {}},
    {'op': 'iter', 'args': {}},
    {'op': 'mcount', 'args': {}},
    {'op': 'opaque', 'args': {}, '_what': 'graph'},
    {'op': 'opaque', 'args': {}, '_what': 'str_tokens'},
    {'op': 'spine_ids', 'args': {}},
    # the SHARED default set object itself is handed in as include, with an exclude next to it
    {'op': 'dumps', 'args': D(inc=['STRUCTURAL', 'CORE', 'SIGNATURES', 'BARLINES', 'IMAGE_ANNOTATIONS'], exc=['BARLINES'], enc='ekern'), '_shared_include': True},
    {'op': 'dumps', 'args': D(frm=0, to=0), 'strict': False, '_last_measure': True},          # to_measure = measures_count
    {'op': 'opaque', 'args': {}, '_what': 'header_nodes'},
    {'op': 'dumps', 'args': D(enc='aekern', inc=['DURATION', 'PITCH', 'STRUCTURAL'], ids=[0, 1])},
    {'op': 'opaque', 'args': {}, '_what': 'partial_iter'},                    # an iteration that is abandoned after its first element
    {'op': 'iterpairs', 'args': {}},                                          # two live iterators over the same document
]
assert len(CALLS) == 32


def concrete(call, doc):
    """resolve the symbolic parts of a call kind against the document."""
    import copy
    c = copy.deepcopy(call)
    M = len(doc.measure_start_tree_stages)
    if c.get('_last_measure'):
        c['args'].update(hasfrom=M > 0, hasto=True, to=M)
        c['args']['from'] = M
    if c.get('_clamp') and M == 0:
        c['args'].update(hasfrom=False, hasto=False)
        c['args']['from'] = 0
        c['args']['to'] = 0
    return c


def do_call(doc, c):
    import kernpy as kp
    if c.get('_shared_include'):
        # pass kp.BEKERN_CATEGORIES itself (not a copy)
        ev = {'ev': 'call', 'op': 'dumps', 'args': c['args'], 'exact': False, 'strict': True}
        try:
            out = kp.dumps(doc, include=kp.BEKERN_CATEGORIES, exclude={kp.TokenCategory.BARLINES}, encoding=kp.Encoding.eKern)
            ev['res'] = {'ok': True, 'grid': session.grid_of(out), 'exc': ''}
        except Exception as ex:  # noqa
            ev['res'] = {'ok': False, 'grid': [], 'exc': 'ValueError' if isinstance(ex, ValueError) else type(ex).__name__}
        ev['snap'] = session.snapshot(doc)
        return ev
    return session.record_call(doc, c)


def sess_history(seed, hist=None, profile='main'):
    r, lines, types = dp.make_doc(seed, profile, max_rows=14)
    evs, doc, text = session.record_import(lines)
    if doc is None:
        return dp.finish_session(lines, evs, text, seed, {'history'})
    import kernpy as kp
    doc2, _ = kp.loads(text)
    session.spoil_document(doc2)            # the second import belongs to the caller, who takes it apart; a third import must not notice
    doc3, _ = kp.loads(text)
    evs[-1]['snap2'] = session.snapshot(doc3)
    for k in hist:
        c = concrete(CALLS[k - 1], doc)
        ev = do_call(doc, c)
        fresh, _ = kp.loads(text)
        ev2 = do_call(fresh, c)
        ev['fresh'] = (ev.get('res') == ev2.get('res'))
        if 'intact' in ev or 'intact' in ev2:          # the process is left as it was found by the call on either copy
            ev['intact'] = ev.get('intact', True) and ev2.get('intact', True)
        ev['kind'] = k
        evs.append(ev)
    s = dp.finish_session(lines, evs, text, seed, dp.features(lines) | {'history'}, dp.agn_classes(lines))
    s['hist'] = list(hist)
    return s


_JOBS = []


def job(i):
    seed, hist = _JOBS[i]
    s = sess_history(seed, hist)
    s['replay'] = {'fn': 'harness.checks.c14:sess_history', 'seed': seed, 'kw': {'hist': list(hist)}}
    return s


def main():
    a = parse_args()
    quick = a.tier == 'quick'
    run = Run('C14', a.tier, a.seed, assumptions=[
        'I2: graph output is only watched for purity (node identifiers are not compared)',
        'the snapshot covers every attribute reachable from Document/Node/Token objects and the module-level defaults'])
    run.rule = ('every history of length 2 over the 32 call kinds (1,024) + simulated histories of length 12, each on its own seeded '
                'document; non-trivial = distinct (document, history) sessions whose history contains a raising call or a filtered / '
                'ranged export before another call')
    run.add_tlc(tlc.run_tlc('MC_Session', 'MC_Session_3.cfg', workers=8, timeout=900, label='MC_Session(len<=3)', tag='NOVP'))
    pairs = tlc.run_tlc('MC_Session', 'MC_Session_2.cfg', workers=4, timeout=900, label='MC_Session(len=2, emitted)')
    run.add_tlc(pairs)
    nsim = 250 if quick else 12000
    sim = tlc.run_tlc('MC_Session', 'MC_Session_12.cfg', workers=1, timeout=1800, simulate=f'num={nsim}', depth=13, seed=a.seed % 100000,
                      label='MC_Session(simulate len=12)')
    run.add_tlc(sim)
    hists = [tuple(h['hist']) for h in pairs.vp] + [tuple(h['hist']) for h in sim.vp]
    if len(pairs.vp) != 32 * 32 or len(sim.vp) < min(nsim, 50) // 2:
        raise MachineryError(f'unexpected number of histories: {len(pairs.vp)} pairs, {len(sim.vp)} simulated')
    global _JOBS
    if a.replay_case:
        docs.validate_sessions(run, docs.replay_sessions(a.replay_case), relevant=docs.relevant_for(run.pid))
        return run.finish()
    _JOBS = [(a.seed * 1000003 + i, h) for i, h in enumerate(hists)]
    sess = docs.build_sessions(job, range(len(_JOBS)))
    docs.selftest_session(next(s for s in sess if len(s['log']) > 10 and any(e['ev'] == 'call' and e['op'] == 'dumps' and not e['args']['hasto'] and not e['args']['hasfrom'] and e['res']['ok'] for e in s['log'])))
    docs.validate_sessions(run, sess, symptom_of=lambda clause, ev, s: clause, relevant=docs.relevant_for(run.pid))
    run.evaluations = sum(len(s.get('hist', ())) for s in sess)
    for s in sess:
        h = s.get('hist', ())
        if any(k in (3, 5, 6, 7, 8, 9, 10, 11, 27, 28, 30) for k in h[:-1]):
            run.nontrivial.add((s['text'], tuple(h)))
    run.note('histories_len2', len(pairs.vp))
    run.note('histories_len12', len(sim.vp))
    s = sess[-1]
    run.sample({'text': s['text'][:300], 'history(kinds)': s.get('hist'), 'calls': [docs.describe_event(e)[:120] for e in s['log'] if e['ev'] == 'call'][:4]})
    run.exhaustive = False
    return run.finish()


if __name__ == '__main__':
    main_wrapper(main)
