"""C05 - category filtering removes exactly the unselected material.

model:    spec/Export.tla (CellView: spine gate, category gate, sub-token filter; Categories!Valid for the selected set)
MC:       MC_SpinePaths with FilterIdentity (include=all / exclude=nothing is the identity), SubsequenceLaw (a filtered cell
          prints a subsequence of the parts it prints unfiltered, or a placeholder) and CommuteLaw over a family of selections
binding:  random documents: the unfiltered eKern export, then dumps(include/exclude) for EVERY single category as include and
          as exclude (74 calls), seeded pairs, random larger sets in set/list/tuple form; plus documents on which all 37 x 37
          single-category pairs are exported; every real result is validated by TLC against ExportGrid with
          cats = Valid(include, exclude) (null spellings identified, I1).
"""
from ..common import main_wrapper
from . import docprops as dp


def main():
    return dp.doc_main(
        'C05',
        assumptions=['I1: ".", "*" and an emptied note are one null value in filtered comparisons',
                     'chords are gated as a whole by CHORD ("every other token"); their notes are filtered part by part'],
        rule='per document: every single category as include and as exclude, 40 random pairs, 6 larger sets; all-pairs population: '
             '1,369 include/exclude pairs on one document; non-trivial = distinct (document, call list) sessions with a chord or a '
             'non-kern spine',
        mc=[('MC_SpinePaths', 'MC_SpinePaths_opts.cfg', 'MC_SpinePaths(FilterIdentity, SubsequenceLaw, CommuteLaw)')],
        populations=[('main', dp.sess_c05, 50, 900, {}),
                     ('multi_character_signifiers', dp.sess_c05, 8, 150, {'profile': 'multi_sigs'}),
                     ('root_spines', dp.sess_c05, 8, 120, {'profile': 'with_root', 'enc': 'kern'}),
                     ('root_spines_extended', dp.sess_c05, 6, 120, {'profile': 'with_root', 'enc': 'ekern'}),
                     ('all_pairs', dp.sess_c05_allpairs, 3, 50, {})],
        nontrivial=lambda s: bool(set(s['tags']) & {'chord', 'non-kern', 'all-pairs'}))


if __name__ == '__main__':
    main_wrapper(main)
