"""C10 - the agnostic encoding depends only on staff position and accidental.

model:    spec/Pitch.tla (ClefBottom, StaffPos, Agnostic); MC_PitchAgn: G2Identity, Translation, BottomLineIsE,
          AccidentalCarried, OctaveMarkIrrelevant, SamePositionSameSpelling over 7 clefs x 7 x 5 x 9
binding:  (a) pitch level: pitch_to_gkern_string over 7 clefs x 5 octave-mark variants x 7 letters x 5 accidentals x 9 octaves
          (11,025 records) validated by TLC (Trace_Pitch "agn");
          (b) document level: akern / aekern exports of generated documents validated by Trace_Session against
          Export!ExportGrid with the governing clef of the SpinePaths state (see harness/checks/docs.py).
"""
from __future__ import annotations

from ..common import Run, main_wrapper, parse_args
from .. import tlc
from . import pitchrec, flat, docs, docprops as dp


def describe(r):
    return (f"agnostic({''.join(map(chr, r['inp']))!r} under {''.join(map(chr, r['clef']))!r}) -> "
            f"{repr(''.join(map(chr, r['out']))) if r['ok'] else r['exc']}")


def pitch_level(run, a):
    run.add_tlc(tlc.run_tlc('MC_PitchAgn', workers=4, timeout=600))
    recs = pitchrec.record_agnostic()
    if a.replay_case:
        flat.validate_flat(run, 'Trace_Pitch', flat.fresh_record(recs, a.replay_case['case']['record'], ('op', 'k', 'mark', 'l', 'a', 'o')), describe)
        return

    def corrupt(rs):
        i = next(i for i, r in enumerate(rs) if r['a'] == -1 and r['ok'])
        rs[i]['out'] = rs[i]['out'][:-1]
        return i, 'agn'
    flat.selftest('Trace_Pitch', recs[:100], corrupt)
    flat.validate_flat(run, 'Trace_Pitch', recs, describe, per_log=700)
    run.evaluations += len(recs)
    for r in recs:
        if r['k'] != 'G2' or r['mark']:
            run.nontrivial.add((r['k'], tuple(r['mark']), r['l'], r['a'], r['o']))
    for r in recs[::3000][:3]:
        run.sample({'call': describe(r)})
    run.note('pitch_level_records', len(recs))


def main():
    a = parse_args()
    run = Run('C10', a.tier, a.seed, assumptions=[
        'I4: the bottom-line table is the one pinned by the repository tests (G2->E4, F3->B3, F4->G2, C1->C3, C2->A2, C3->B2, C4->D2)'])
    run.rule = ('pitch level exhaustive: 7 clefs x {none,v,vv,^,^^} x 7 letters x accidentals -2..2 x octaves 0..8; document level: '
                'generated documents with clef changes, chords and splits exported in akern/aekern; non-trivial = records under a '
                'non-G2 clef or an octave-marked clef, and documents with >= 2 different clefs in force')
    if a.replay_case and a.replay_case['case'].get('replay'):
        run.add_tlc(tlc.run_tlc('MC_PitchAgn', workers=4, timeout=600))
        docs.validate_sessions(run, docs.replay_sessions(a.replay_case), relevant=docs.relevant_for(run.pid))
        return run.finish()
    pitch_level(run, a)
    if a.replay_case:
        return run.finish()
    # document level: akern / aekern exports of documents with clef changes, chords and splits
    n = 150 if a.tier == 'quick' else 3000
    sess = docs.build_sessions(dp.sess_c10, [a.seed * 1000003 + i for i in range(n)], plain_acc=False)
    docs.selftest_session(next(s for s in sess if len(s['log']) > 10))
    docs.validate_sessions(run, sess, relevant=docs.relevant_for(run.pid))
    run.evaluations += sum(1 for s in sess for e in s['log'] if e['ev'] == 'call')
    run.note('document_level_sessions', n)
    for s in sess:
        if 'clef-change' in s['tags']:
            run.nontrivial.add(s['text'])
    s = next((s for s in sess if 'clef-change' in s['tags'] and 'split' in s['tags']), sess[0])
    run.sample({'text': s['text'][:500], 'tags': s['tags'],
                'akern': next((docs.describe_event(e)[:400] for e in s['log'] if e['ev'] == 'call' and e.get('op') == 'dumps' and e['args']['enc'] == 'akern'), None)})
    run.exhaustive = False
    return run.finish()


if __name__ == '__main__':
    main_wrapper(main)
