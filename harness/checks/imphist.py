"""Histories of import_token calls on one real spine-importer object (C12, C18): recording and validation."""
from __future__ import annotations

import random

from ..common import cps, uncps, MachineryError
from .. import tlc, gen

UNKNOWN = '**zz'
NONKERN = ['**text', '**dynam', '**dyn', '**harm', '**mxhm', '**fing', UNKNOWN]


def replay_history(ht, cells, with_kern_reference=False, fresh_reference=False):
    """ht: header text (str); cells: abstract cells.  Returns the log (list of events)."""
    from kernpy.core.importer_factory import createImporter
    from kernpy.core.kern_spine_importer import KernSpineImporter
    imp = createImporter(ht)
    log = [{'ev': 'new', 'ht': cps(ht)}]
    for n_, c in enumerate(cells):
        if n_ % 25 == 0:
            spoil_category_answers()
        text = uncps(c['t'])
        res = {'ok': True, 'cat': 'NONE', 'enc': [], 'held': 0, 'exc': ''}
        try:
            tok = imp.import_token(text)
            res.update(cat=tok.category.name, enc=cps(tok.encoding))
        except Exception as ex:  # noqa
            res.update(ok=False, exc=type(ex).__name__)
        try:
            res['held'] = len(imp.error_listener.errors)
        except Exception:  # noqa
            res['held'] = -1
        ev = {'ev': 'import', 'cell': c, 'res': res}
        if fresh_reference:
            f = {'ok': True, 'cat': 'NONE', 'enc': []}
            try:
                t3 = createImporter(ht).import_token(text)
                f.update(cat=t3.category.name, enc=cps(t3.encoding))
            except Exception:  # noqa
                f['ok'] = False
            ev['fresh'] = f
        if with_kern_reference:
            k = {'ok': True, 'cat': 'NONE', 'enc': []}
            try:
                t2 = KernSpineImporter().import_token(text)
                k.update(cat=t2.category.name, enc=cps(t2.encoding))
            except Exception:  # noqa
                k['ok'] = False
            ev['kern'] = k
        log.append(ev)
    return log


def spoil_category_answers():
    """The category sets the API hands out belong to the caller: they are requested and emptied (the importers consult the same
    hierarchy to decide what is shared structure - they must not notice)."""
    import kernpy as kp
    C = kp.TokenCategory
    for c in C:
        for f in (C.nodes, C.children, C.leaves):
            try:
                f(c).clear()
            except Exception:  # noqa
                pass
    for f in (C.all, C.valid):
        try:
            f().clear()
        except Exception:  # noqa
            pass


def describe(ev):
    if ev['ev'] != 'import':
        return ev['ev']
    r = ev['res']
    return f"import_token({uncps(ev['cell']['t'])!r}) [class {ev['cell']['k']}] -> " + \
        (f"{r['cat']} {uncps(r['enc'])!r}" if r['ok'] else 'raised ' + r['exc']) + f" (listener holds {r['held']})"


def validate(run, logs, metas, symptom_of=None):
    verdicts, tl = tlc.validate_traces('Trace_Importer', logs, timeout=1800)
    for t in tl:
        run.add_tlc(t)
    run.traces += len(logs)
    for log, meta, v in zip(logs, metas, verdicts):
        if v.reached != v.length:
            raise MachineryError(f'Trace_Importer blocked at {v.reached}/{v.length}')
        seen = set()
        for pos, clause in v.fails:
            ev = log[pos - 1]
            cl = set(meta.get('classes', ())) | set(ev['cell'].get('_classes', ()))
            sym = symptom_of(clause, ev) if symptom_of else clause
            if (clause, tuple(ev['cell']['t'])) in seen:
                continue
            seen.add((clause, tuple(ev['cell']['t'])))
            hist = [uncps(e['cell']['t']) for e in log[1:pos]]
            run.violation({'header': uncps(log[0]['ht']), 'history': hist, 'cells': [e['cell'] for e in log[1:pos + 1]], 'event_index': pos, 'clause': clause, 'event': ev,
                           'input': f"{uncps(log[0]['ht'])}: {hist}", 'meta': meta},
                          f"clause {clause} fails after the history {hist[-6:]} on one {uncps(log[0]['ht'])} importer: {describe(ev)}",
                          classes=cl, symptom=sym)


# ------------------------------------------------------------------------------------------------
# corpus for C18: every grammar alternative, free text, arbitrary strings
# ------------------------------------------------------------------------------------------------
def corpus(r: random.Random, n_random=150):
    """list of abstract cells with the class the GRAMMAR gives them (never kernpy's answer)."""
    g = gen.DocGen(r)
    cells = []
    for m in range(1, 4):
        for typ in gen.BARTYPES:
            cells.append(gen.mk_bar(num=str(m) if m > 1 else '', typ=typ, dbl=(m == 3), ferm=(m == 2 and typ == '')))
    cells += [gen.mk_bar(num='12', ab='a'), gen.mk_bar(num='3', tail='j'), gen.mk_bar(tail='.'), gen.mk_bar(num='7', tail='??')]
    cells += [gen.NULL(), gen.NULLI()]
    for kind, pool in (('clef', gen.CLEFS + ['*clefG1', '*clefC5', '*clefP', '*clefT']), ('keysig', gen.KEYSIGS), ('timesig', gen.TIMESIGS), ('meter', gen.METERS),
                       ('staff', gen.STAFFS + ['*staff+3']), ('bbox', gen.BBOXES)):
        cells += [gen.lit(kind, t) for t in pool]
    # everything else is "own category, verbatim" under the non-kern spine types
    for t in gen.OCTX + gen.TANDEM + gen.VISUAL:
        cells.append(gen.lit('text', t))
    for _ in range(25):
        cells.append(dict(gen.note_cell(g.note()), k='text'))
        cells.append(dict(gen.note_cell(g.rest()), k='text'))
        cells.append(dict(g.chord(), k='text'))
    for pool in (gen.LYR, gen.DYN, gen.HARM, gen.FING, gen.OTHERTXT):
        cells += [gen.lit('text', t) for t in pool]
    cells += [gen.lit('text', t) for t in ['U4c', 'c4', '4', '4Uc', 'h', '%4c', '&&', '#c', '|', '+', '16.', 'r4', '4#c', 'Zz9', '!x', '!!y', ' ', '  ', 'a b']]
    alpha = 'abcdefgxyzLJ0123456789#-_[](){}<>/\\|:;,\'"?!@&%$^~`+ ñéü日本·«»'
    k = 0
    while k < n_random:
        s = ''.join(r.choice(alpha) for _ in range(r.randint(1, 9)))
        if s[0] in '=*.' or s.strip() == '':
            continue           # would start a shared token: that is the explored class shared_prefix_plus_suffix
        cells.append(gen.lit('text', s))
        k += 1
    return cells


def explored_corpus():
    """strings that START with a complete shared token and continue with something that cannot extend it (D7)."""
    out = []
    for t in ['=x', '=1zz', '==end', '*zz', '*clefG2x', '*M4/4x', '.x', '..', '*k[]z', '=:|!x', '*staff1x']:
        c = gen.lit('text', t)
        c['_classes'] = ['shared_prefix_plus_suffix']
        out.append(c)
    return out
