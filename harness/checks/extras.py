"""Behaviour the specification also covers although no listed property claims it (run by bin/extras; NOT a registered check).

  * American pitch notation (output and input), semitone distance, ordering of pitches      -> Pitch.tla, Trace_Pitch
  * the page index of bounding boxes                                                          -> Queries!PageIndex, Trace_Session (end.page_index)
  * the graph export (ranks, edges, node labels up to renaming)                                -> Queries!GraphRanks/GraphEdges/GraphLabels, Trace_Session (graph.*)
  * value objects: StoreCache, BoundingBox, DurationClassical, PitchRest under call histories -> Values.tla, MC_Values, Trace_Values
A deviation here is reported as EXTRA-DEVIATION (never as a VIOLATION of a property) and the command always exits 0 unless the
machinery itself fails.  Known deviations of the unchanged tree are listed in KNOWN below.
"""
from __future__ import annotations

import json
import os
import random
import time

from ..common import cps, uncps, VERIF, main_wrapper, MachineryError
from .. import tlc
from . import pitchrec, docs, docprops as dp, values

KNOWN = {'american_in_flat': "AmericanPitchImporter cannot read flats ('Bb4' -> ValueError: the name setter upper-cases before mapping b to -)",
         'american_out_two_or_more_sharps': "AmericanPitchExporter writes flats for a result with two or more sharps (C up AA3 -> 'Ebb': it compares the "
                                            "accidental string with '+' instead of looking at its first character)"}
SEMI = [0, 2, 4, 5, 7, 9, 11]


def result_alteration(l, a, o, iv, up):
    """alteration of the transposed pitch by letter/semitone arithmetic (only used to CLASSIFY an input)."""
    q, n = (iv[:-1], int(iv[-1])) if iv != 'octave' else ('P', 8)
    off = {'dd': -2, 'd': -1, 'P': 0, 'A': 1, 'AA': 2} if n in (1, 4, 5, 8) else {'dd': -3, 'd': -2, 'm': -1, 'M': 0, 'A': 1, 'AA': 2}
    semis = 12 if n == 8 else SEMI[n - 1] + off[q]
    s = 1 if up else -1
    li = l + s * (n - 1)
    nl, no = li % 7, o + li // 7
    return (12 * o + SEMI[l] + a + s * semis) - (12 * no + SEMI[nl])



def american(l, a, o):
    return 'CDEFGAB'[l] + ('#' * a if a > 0 else 'b' * (-a)) + str(o)


def records():
    import kernpy as kp
    from kernpy.core import transposer as tr
    from kernpy.core.pitch_models import AgnosticPitch
    recs = []
    names = list(tr.IntervalsByName)
    r = random.Random(7)
    for l in range(7):
        for a in range(-2, 3):
            for o in range(0, 9):
                s = pitchrec.spell(l, a, o)
                for iv in r.sample(names, 4):
                    up = r.random() < 0.5
                    ok, out = pitchrec.safe(kp.transpose, s, tr.IntervalsByName[iv], input_format='kern', output_format='american', direction='up' if up else 'down')
                    recs.append({'op': 'american_out', 'l': l, 'a': a, 'o': o, 'iv': iv, 'up': up, 'ok': ok, 'out': pitchrec.txt(ok, out),
                                 '_class': 'american_out_two_or_more_sharps' if result_alteration(l, a, o, iv, up) >= 2 else ''})
                am = american(l, a, o)
                ok, out = pitchrec.safe(kp.transpose, am, 0, input_format='american', output_format='kern')
                recs.append({'op': 'american_in', 'l': l, 'a': a, 'o': o, 'inp': cps(am), 'ok': ok, 'out': pitchrec.txt(ok, out), '_class': 'american_in_flat' if a < 0 else ''})
                l2, a2, o2 = r.randrange(7), r.randrange(-2, 3), r.randrange(0, 9)
                ok, val = pitchrec.safe(kp.distance, s, pitchrec.spell(l2, a2, o2))
                recs.append({'op': 'distance', 'l': l, 'a': a, 'o': o, 'l2': l2, 'a2': a2, 'o2': o2, 'ok': ok, 'val': val if ok else 0})
                name = lambda L, A: 'CDEFGAB'[L] + ('+' * A if A > 0 else '-' * (-A))  # noqa
                p, q = AgnosticPitch(name(l, a), o), AgnosticPitch(name(l2, a2), o2)
                recs.append({'op': 'compare', 'l': l, 'a': a, 'o': o, 'l2': l2, 'a2': a2, 'o2': o2, 'lt': bool(p < q), 'gt': bool(p > q)})
    # the graphic staff position of every pitch under every clef, and the algebra of PositionInStaff objects
    from kernpy.core import gkern
    from kernpy.core.pitch_models import HumdrumPitchImporter
    for k, (sign, line) in pitchrec.CLEFS.items():
        for mark in ('', 'v', '^^'):
            clef = gkern.ClefFactory.create_clef(f'*clef{sign}{mark}{line}')
            for l in range(7):
                for o in range(0, 9):
                    a = r.randrange(-2, 3)
                    by, other = r.randrange(-9, 10), r.randrange(-20, 40)

                    def probe():
                        pitch = HumdrumPitchImporter().import_pitch(pitchrec.spell(l, a, o))
                        pos = gkern.Staff().position_in_staff(clef=clef, pitch=pitch)
                        txt = gkern.GKernExporter(clef).export(gkern.Staff(), pitch)
                        back = (gkern.PositionInStaff.from_line(pos.line()) if pos.is_line() else gkern.PositionInStaff.from_space(pos.space()))
                        return {'ls': int(pos.line_space), 'txt': cps(txt), 'line': int(pos.line()), 'space': int(pos.space()), 'isline': bool(pos.is_line()),
                                'back': int(back.line_space), 'moved': int(pos.move(by).line_space), 'above': int(pos.position_above().line_space),
                                'below': int(pos.position_below().line_space), 'lt': bool(pos < gkern.PositionInStaff(other))}
                    ok, res = pitchrec.safe(probe)
                    rec = {'op': 'staffpos', 'k': k, 'l': l, 'a': a, 'o': o, 'by': by, 'other': other, 'ok': ok,
                           'ls': 0, 'txt': [], 'line': 0, 'space': 0, 'isline': False, 'back': 0, 'moved': 0, 'above': 0, 'below': 0, 'lt': False}
                    if ok:
                        rec.update(res)
                    recs.append(rec)
    return recs


def sess_extras(seed):
    from .. import session
    r, lines, types = dp.make_doc(seed, 'main')
    evs, doc, text = session.record_import(lines)
    if doc is not None:
        evs.append(session.record_call(doc, {'op': 'graph', 'args': {}}))
    return dp.finish_session(lines, evs, text, seed, dp.features(lines))


def ext_document(r):
    """documents of the EXTENDED row machine: add-spine operators followed by the line that names the new spine, several
    sections (a new header line after every spine was terminated), and - sometimes - a line with the unsupported exchange operator."""
    from .. import gen
    g = gen.DocGen(r, chords='core')
    lines = []
    for _ in range(r.choice([0, 0, 1])):
        lines.append({'ev': 'global', 'cell': gen.lit('gcom', r.choice(gen.GCOMS))})
    nkey = [0]
    typ = {}

    def new_path(t):
        nkey[0] += 1
        typ[nkey[0]] = t
        return nkey[0]

    def row(cells):
        lines.append({'ev': 'row', 'cells': cells})
    for section in range(r.choice([1, 1, 2])):
        types = [r.choice(['**kern', '**kern', '**text', '**dynam']) for _ in range(r.choice([1, 2, 2, 3]))]
        lines.append({'ev': 'header', 'cells': [gen.lit('hdr', t) for t in types]})
        paths = [new_path(t) for t in types]
        m = 1
        for _ in range(r.randint(3, 12)):
            if not paths:
                break
            k = r.random()
            if k < 0.4:
                row([g.data_cell(typ[p]) for p in paths])
            elif k < 0.5:
                b = g.bar(m)
                m += 1
                row([dict(b) for _ in paths])
            elif k < 0.6:
                row([(g.interp_cell(typ[p], 'clef') if typ[p] == '**kern' and r.random() < 0.6 else gen.NULLI()) for p in paths])
            elif k < 0.65:
                lines.append({'ev': 'global', 'cell': gen.lit('gcom', r.choice(gen.GCOMS))})
            elif k < 0.8 and len(paths) < 5:
                j = r.randrange(len(paths))                   # '*+' and the line that names the new spine
                row([gen.ADD() if i == j else gen.NULLI() for i in range(len(paths))])
                t = r.choice(['**text', '**dynam', '**kern', '**fing'])
                q = new_path(t)
                paths = paths[:j + 1] + [q] + paths[j + 1:]
                row([gen.lit('hdr', t) if p == q else gen.NULLI() for p in paths])
            elif k < 0.97:
                g.ops_row(paths, row)
            else:
                row([gen.EXCH() if i < 2 else gen.NULLI() for i in range(len(paths))] if len(paths) > 1 else [gen.EXCH()])
                lines[-1]['ev'] = 'unsupported'
                return lines
        if paths:
            row([gen.TERM() for _ in paths])
    for _ in range(r.choice([0, 0, 1])):
        lines.append({'ev': 'global', 'cell': gen.lit('gcom', r.choice(gen.GCOMS))})
    return lines


def sess_ext(seed):
    from .. import session
    import kernpy as kp
    r = random.Random(seed)
    lines = ext_document(r)
    evs, doc, text = session.record_import(lines)
    if doc is not None:
        other_text = r.choice([text, '**kern\t**text\n4c\tla\n*-\t*-\n', '**kern\n*-\n', '**kern\t**kern\n*-\t*-\n', '**text\t**kern\t**dynam\n*-\t*-\t*-\n'])
        other, _ = kp.loads(other_text)
        for c in ({'op': 'dumps', 'args': session.dumps_args(), 'exact': True}, {'op': 'listing', 'args': {'incall': True, 'inc': []}},
                  {'op': 'spine_ids', 'args': {}}, {'op': 'small', 'args': {}, '_other': other}, {'op': 'graph', 'args': {}},
                  {'op': 'dumps', 'args': session.dumps_args(ids=[0], enc='ekern'), 'exact': True}):
            evs.append(session.record_call(doc, c))
    return dp.finish_session(lines, evs, text, seed, dp.features(lines) | {'extended-machine'})


def main():
    t0 = time.time()
    recs = records()
    logs = [recs[i:i + 400] for i in range(0, len(recs), 400)]
    verdicts, tl = tlc.validate_traces('Trace_Pitch', logs)
    dev, known = [], {}
    for log, v in zip(logs, verdicts):
        if v.reached != v.length:
            raise MachineryError('Trace_Pitch blocked')
        for pos, clause in v.fails:
            r = log[pos - 1]
            if r.get('_class') in KNOWN:
                known[r['_class']] = known.get(r['_class'], 0) + 1
            else:
                dev.append(r)
    # page index: recorded imports with bounding boxes
    sess = docs.build_sessions(sess_extras, [4242000 + i for i in range(200)])
    vs, tl2 = tlc.validate_traces('Trace_Session', [s['log'] for s in sess])
    npage = sum(1 for s in sess for e in s['log'] if e['ev'] == 'end' and e['obs']['pages'])
    pdev = [s['text'] for s, v in zip(sess, vs) if any(c == 'end.page_index' for _, c in v.fails)]
    gdev = [(s['text'], c) for s, v in zip(sess, vs) for _, c in v.fails if c.startswith('graph.')]
    # the extended row machine ('*+' and the line naming the new spine, several sections, '*x') and the small queries
    sx = docs.build_sessions(sess_ext, [4343000 + i for i in range(300)])
    vx, tl3 = tlc.validate_traces('Trace_Session', [s['log'] for s in sx])
    xdev = {}
    nblocked = 0
    for s_, v in zip(sx, vx):
        if v.reached != v.length:
            nblocked += 1
            print('EXTRA-DEVIATION: the row machine does not allow event', v.reached + 1, 'of', repr(s_['text'][:300]))
        for pos, c in v.fails:
            xdev.setdefault(c, []).append((s_['text'], pos))
    for c, xs in sorted(xdev.items()):
        print(f'EXTRA-DEVIATION: clause {c} fails {len(xs)} time(s), e.g. event {xs[0][1]} of {xs[0][0][:300]!r}')
    # spec -> code for the extended machine: TLC enumerates every behaviour of the bounded extended instance (all C02 invariants and the
    # document laws hold in every state); the behaviours that use an add-spine operator, a second section or '*x' are replayed
    from . import c02
    mcx = tlc.run_tlc('MC_SpinePaths', 'MC_SpinePaths_ext.cfg', workers=16, timeout=3000, label='MC_SpinePaths(extended machine, 5 lines)')
    def is_ext(b):
        return (any(c['k'] in ('add', 'exch') for e in b['fed'] if 'cells' in e for c in e['cells'])
                or sum(1 for e in b['fed'] if e['ev'] == 'header') > 1 or any(c['k'] == 'hdr' for e in b['fed'] if e['ev'] == 'row' for c in e['cells']))
    xb = [b for b in mcx.vp if is_ext(b)]
    rndx = random.Random(11)
    xb = xb if len(xb) <= 4000 else rndx.sample(xb, 4000)
    c02._BEHS = xb
    sb = docs.build_sessions(c02._beh_worker, range(len(xb)))
    vb, tl4 = tlc.validate_traces('Trace_Session', [s_['log'] for s_ in sb])
    bdev = {}
    for s_, v in zip(sb, vb):
        if v.reached != v.length:
            bdev.setdefault('blocked', []).append(s_['text'])
        for pos, c in v.fails:
            bdev.setdefault(c, []).append(s_['text'])
    for c, xs in sorted(bdev.items()):
        print(f'EXTRA-DEVIATION: (TLC behaviour of the extended machine) clause {c} fails {len(xs)} time(s), e.g. {xs[0][:200]!r}')
    # value objects: StoreCache, BoundingBox, DurationClassical, PitchRest (Values.tla: every short history + simulated long ones)
    vsumm, vdev, vtl = values.run(thorough=os.environ.get('VERIF_TIER') == 'thorough')
    for d_ in vdev[:10]:
        print('EXTRA-DEVIATION: (value objects)', d_[:400])
    for t, c in gdev[:5]:
        print('EXTRA-DEVIATION:', c, 'of', repr(t[:200]))
    for r in dev[:10]:
        print('EXTRA-DEVIATION:', {k: (uncps(v) if isinstance(v, list) and v and isinstance(v[0], int) else v) for k, v in r.items()})
    for t in pdev[:5]:
        print('EXTRA-DEVIATION: page index of', repr(t[:200]))
    for k, n in known.items():
        print(f'EXTRA-KNOWN: {k} x{n}: {KNOWN[k]}')
    out = {'records': len(recs), 'deviations': len(dev), 'known_deviations': known, 'documents_with_page_boxes': npage, 'page_index_deviations': len(pdev), 'graph_exports': len(sess), 'graph_deviations': len(gdev),
           'extended_machine_documents': len(sx), 'extended_machine_with_add_spine': sum(1 for s_ in sx if '*+' in s_['text']),
           'extended_machine_with_exchange': sum(1 for s_ in sx for e_ in s_['log'] if e_['ev'] == 'unsupported'), 'extended_machine_sections>1': sum(1 for s_ in sx if s_['text'].count('\n**') + s_['text'].startswith('**') > 1),
           'extended_machine_mc_states': mcx.distinct, 'extended_machine_behaviours_replayed': len(xb), 'extended_machine_behaviour_deviations': {c: len(x) for c, x in bdev.items()},
           'extended_machine_blocked': nblocked, 'extended_machine_deviations': {c: len(x) for c, x in xdev.items()},
           **vsumm,
           'states': sum(t.distinct for t in tl + tl2 + tl3 + tl4 + vtl) + mcx.distinct, 'wall_s': round(time.time() - t0, 1)}
    if os.environ.get('VERIF_REPO', '/repo') == '/repo':          # a development run against a scratch repository writes nothing
        os.makedirs(os.path.join(VERIF, 'evidence'), exist_ok=True)
        with open(os.path.join(VERIF, 'evidence', 'extras.json'), 'w') as f:
            json.dump(out, f, indent=1)
    print('[extras]', out)
    return 0


if __name__ == '__main__':
    main_wrapper(main)
