"""Behaviour the specification also covers although no listed property claims it (run by bin/extras; NOT a registered check).

  * American pitch notation (output and input), semitone distance, ordering of pitches      -> Pitch.tla, Trace_Pitch
  * the page index of bounding boxes                                                          -> Queries!PageIndex, Trace_Session (end.page_index)
  * the graph export (ranks, edges, node labels up to renaming)                                -> Queries!GraphRanks/GraphEdges/GraphLabels, Trace_Session (graph.*)
A deviation here is reported as EXTRA-DEVIATION (never as a VIOLATION of a property) and the command always exits 0 unless the
machinery itself fails.  Known deviations of the unchanged tree are listed in KNOWN below.
"""
from __future__ import annotations

import json
import os
import random
import time

from ..common import cps, uncps, VERIF, main_wrapper, MachineryError
from .. import tlc
from . import pitchrec, docs, docprops as dp

KNOWN = {'american_in_flat': "AmericanPitchImporter cannot read flats ('Bb4' -> ValueError: the name setter upper-cases before mapping b to -)",
         'american_out_two_or_more_sharps': "AmericanPitchExporter writes flats for a result with two or more sharps (C up AA3 -> 'Ebb': it compares the "
                                            "accidental string with '+' instead of looking at its first character)"}
SEMI = [0, 2, 4, 5, 7, 9, 11]


def result_alteration(l, a, o, iv, up):
    """alteration of the transposed pitch by letter/semitone arithmetic (only used to CLASSIFY an input)."""
    q, n = (iv[:-1], int(iv[-1])) if iv != 'octave' else ('P', 8)
    off = {'dd': -2, 'd': -1, 'P': 0, 'A': 1, 'AA': 2} if n in (1, 4, 5, 8) else {'dd': -3, 'd': -2, 'm': -1, 'M': 0, 'A': 1, 'AA': 2}
    semis = 12 if n == 8 else SEMI[n - 1] + off[q]
    s = 1 if up else -1
    li = l + s * (n - 1)
    nl, no = li % 7, o + li // 7
    return (12 * o + SEMI[l] + a + s * semis) - (12 * no + SEMI[nl])



def american(l, a, o):
    return 'CDEFGAB'[l] + ('#' * a if a > 0 else 'b' * (-a)) + str(o)


def records():
    import kernpy as kp
    from kernpy.core import transposer as tr
    from kernpy.core.pitch_models import AgnosticPitch
    recs = []
    names = list(tr.IntervalsByName)
    r = random.Random(7)
    for l in range(7):
        for a in range(-2, 3):
            for o in range(0, 9):
                s = pitchrec.spell(l, a, o)
                for iv in r.sample(names, 4):
                    up = r.random() < 0.5
                    ok, out = pitchrec.safe(kp.transpose, s, tr.IntervalsByName[iv], input_format='kern', output_format='american', direction='up' if up else 'down')
                    recs.append({'op': 'american_out', 'l': l, 'a': a, 'o': o, 'iv': iv, 'up': up, 'ok': ok, 'out': pitchrec.txt(ok, out),
                                 '_class': 'american_out_two_or_more_sharps' if result_alteration(l, a, o, iv, up) >= 2 else ''})
                am = american(l, a, o)
                ok, out = pitchrec.safe(kp.transpose, am, 0, input_format='american', output_format='kern')
                recs.append({'op': 'american_in', 'l': l, 'a': a, 'o': o, 'inp': cps(am), 'ok': ok, 'out': pitchrec.txt(ok, out), '_class': 'american_in_flat' if a < 0 else ''})
                l2, a2, o2 = r.randrange(7), r.randrange(-2, 3), r.randrange(0, 9)
                ok, val = pitchrec.safe(kp.distance, s, pitchrec.spell(l2, a2, o2))
                recs.append({'op': 'distance', 'l': l, 'a': a, 'o': o, 'l2': l2, 'a2': a2, 'o2': o2, 'ok': ok, 'val': val if ok else 0})
                name = lambda L, A: 'CDEFGAB'[L] + ('+' * A if A > 0 else '-' * (-A))  # noqa
                p, q = AgnosticPitch(name(l, a), o), AgnosticPitch(name(l2, a2), o2)
                recs.append({'op': 'compare', 'l': l, 'a': a, 'o': o, 'l2': l2, 'a2': a2, 'o2': o2, 'lt': bool(p < q), 'gt': bool(p > q)})
    return recs


def sess_extras(seed):
    from .. import session
    r, lines, types = dp.make_doc(seed, 'main')
    evs, doc, text = session.record_import(lines)
    if doc is not None:
        evs.append(session.record_call(doc, {'op': 'graph', 'args': {}}))
    return dp.finish_session(lines, evs, text, seed, dp.features(lines))


def main():
    t0 = time.time()
    recs = records()
    logs = [recs[i:i + 400] for i in range(0, len(recs), 400)]
    verdicts, tl = tlc.validate_traces('Trace_Pitch', logs)
    dev, known = [], {}
    for log, v in zip(logs, verdicts):
        if v.reached != v.length:
            raise MachineryError('Trace_Pitch blocked')
        for pos, clause in v.fails:
            r = log[pos - 1]
            if r.get('_class') in KNOWN:
                known[r['_class']] = known.get(r['_class'], 0) + 1
            else:
                dev.append(r)
    # page index: recorded imports with bounding boxes
    sess = docs.build_sessions(sess_extras, [4242000 + i for i in range(200)])
    vs, tl2 = tlc.validate_traces('Trace_Session', [s['log'] for s in sess])
    npage = sum(1 for s in sess for e in s['log'] if e['ev'] == 'end' and e['obs']['pages'])
    pdev = [s['text'] for s, v in zip(sess, vs) if any(c == 'end.page_index' for _, c in v.fails)]
    gdev = [(s['text'], c) for s, v in zip(sess, vs) for _, c in v.fails if c.startswith('graph.')]
    for t, c in gdev[:5]:
        print('EXTRA-DEVIATION:', c, 'of', repr(t[:200]))
    for r in dev[:10]:
        print('EXTRA-DEVIATION:', {k: (uncps(v) if isinstance(v, list) and v and isinstance(v[0], int) else v) for k, v in r.items()})
    for t in pdev[:5]:
        print('EXTRA-DEVIATION: page index of', repr(t[:200]))
    for k, n in known.items():
        print(f'EXTRA-KNOWN: {k} x{n}: {KNOWN[k]}')
    out = {'records': len(recs), 'deviations': len(dev), 'known_deviations': known, 'documents_with_page_boxes': npage, 'page_index_deviations': len(pdev), 'graph_exports': len(sess), 'graph_deviations': len(gdev),
           'states': sum(t.distinct for t in tl + tl2), 'wall_s': round(time.time() - t0, 1)}
    os.makedirs(os.path.join(VERIF, 'evidence'), exist_ok=True)
    with open(os.path.join(VERIF, 'evidence', 'extras.json'), 'w') as f:
        json.dump(out, f, indent=1)
    print('[extras]', out)
    return 0


if __name__ == '__main__':
    main_wrapper(main)
