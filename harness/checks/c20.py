"""C20 - file and command-line paths equal the in-memory API.

model:    spec/FileCli.tla: a directory tree (path universe x content labels) under K2EFile / E2KFile / K2EDir / E2KDir (recursive or
          not) / Dump; content algebra K2E / E2K with RoundTripIsIdentity and Idempotent as assumptions checked by TLC
MC:       MC_FileCli: all action sequences of length <= 2 (quick) / 3 (thorough) on three initial trees: OnlyTargetsChange,
          NonRecursiveStaysShallow, SuffixRule, InputsSurvive, ConvertedIsApiValue, ErrorsDoNotStopTheRun
binding:  every enumerated sequence is replayed in a fresh scratch directory with the REAL entry points (kernpy.__main__.main()
          in-process with sys.argv; one sequence per run through `python -m kernpy` in a subprocess; kp.dump), the directory is
          listed after every action and every file is labelled by comparing its bytes with what the in-memory API produces for the
          same input (dumps / loads / get_kern_from_ekern); TLC validates the recorded run against the actions of FileCli.tla
          (Trace_FileCli).  load(path) vs loads(text) is compared through the deep snapshot for every kern file (LF and CRLF,
          with and without final newline, non-ASCII lyrics).
"""
from __future__ import annotations

import contextlib
import io
import os
import random
import warnings
import shutil
import subprocess
import sys
import tempfile

from ..common import Run, main_wrapper, parse_args, MachineryError, cps, uncps
from .. import tlc, session, gen

_CTX = {}


# lyric cells a line reader must take literally: quotes (balanced and not), commas, characters str.splitlines() would break at,
# non-ASCII text in composed AND decomposed form (a reader that normalises the text changes it), compatibility characters, blanks
WEIRD = ['"open', 'a\x85b', 'x,y', 'c\u2028d', '"hi"', 'ñu', '日本', 'o\u0301', 'u\u0308ber', '\u212bng', 'ﬁn', 'a b', 'tra\u00a0la', 'e\u0301\u0323',
         'x\ufeffy', 'İs', 'ǅ', 'so\u00adft', "it's", 'back\\slash', 'semi;colon', 'a|b', 'per%cent', '½', 'x\u200bz', ' lead', 'trail ', 'Ω\u2126', 'ﾊﾟ', 'a\x0bb',
         'a\x1cb', '\u1e9b\u0323', '\u0958']


def lyric_doc(r, weird, need=3):
    """a generated score with a lyrics spine whose cells are taken from `weird` (in order); None when it could not be built"""
    for _ in range(400):
        g = gen.DocGen(random.Random(r.random()), chords='core', max_rows=12, max_spines=3, first_kern=1.0, hidden_bars=False,
                       types=['**kern', '**text'], fcoms=True, pre_comments=True)
        lines, types = g.document()
        if '**text' not in types:
            continue
        tcol = types.index('**text')
        todo = list(weird)
        for e in lines:
            if e['ev'] == 'row' and len(e['cells']) == len(types) and e['cells'][tcol]['k'] in ('text', 'null') and todo:
                e['cells'][tcol] = gen.lit('text', todo.pop(0))
        if len(weird) - len(todo) >= need:
            return lines
    return None


def load_case(seed):
    """one generated file: load(path) against loads(its text) - line ends LF / CRLF / CR, with and without a final newline, sometimes
    one malformed kern cell and blank lines before the first record (the reported lines must agree too)."""
    import kernpy as kp
    r = random.Random(seed)
    weird = r.sample(WEIRD, 6)
    lines = lyric_doc(r, weird)
    if lines is None:
        return None
    if r.random() < 0.3:
        rows = [i for i, e in enumerate(lines) if e['ev'] == 'row' and e['cells'][0]['k'] in ('note', 'chord', 'null')]
        if rows:
            i = r.choice(rows)
            lines[i] = dict(lines[i], cells=[gen.lit('err', 'U4c')] + lines[i]['cells'][1:])
    eol = r.choice(['\n', '\n', '\r\n', '\r'])
    text = r.choice(['', '', eol, eol + eol]) + session.render(lines, eol=eol, final_eol=r.random() < 0.7)
    d = tempfile.mkdtemp(prefix='kernpy_c20_')
    try:
        path = os.path.join(d, 'a.krn')
        write_bytes(path, text)
        try:
            with warnings.catch_warnings():
                warnings.simplefilter('ignore')
                d1, e1 = kp.load(path) if seed % 3 else kp.read(path)
                d2, e2 = kp.loads(text) if seed % 2 else kp.create(text)
            same = session.snapshot(d1) == session.snapshot(d2) and [(x.line, x.encoding) for x in e1] == [(x.line, x.encoding) for x in e2]
        except Exception:  # noqa
            try:
                kp.loads(text)
                same = False                      # only the file path fails
            except Exception:  # noqa
                try:
                    kp.load(path)
                    same = False                  # only the text path fails
                except Exception:  # noqa
                    same = True                   # both refuse the text: nothing to compare
    finally:
        shutil.rmtree(d, ignore_errors=True)
    log = [{'ev': 'init', 'snap': [['', 'a', 'krn', 'K1']]}, {'ev': 'load', 'p': ['', 'a', 'krn'], 'same': same}]
    log += roundtrip_events(text)
    if seed % 3 == 0:
        log += roundtrip_events(plain_score(r))
    return {'text': text, 'seed': seed, 'log': log}


def plain_score(r):
    """a score whose ekern form contains no separator at all: pitch-only notes, bare rests, signatures and barlines"""
    n = r.choice([1, 1, 2])
    rows = [['**kern'] * n, [r.choice(gen.CLEFS) for _ in range(n)]]
    for m in range(1, r.randint(2, 4)):
        rows.append(['=%d' % m] * n)
        for _ in range(r.randint(1, 3)):
            rows.append([r.choice(['c', 'dd', 'E', 'r', 'GG', 'b', '.']) for _ in range(n)])
    rows.append(['*-'] * n)
    return '\n'.join('\t'.join(row) for row in rows) + '\n'


def roundtrip_events(text):
    """kern -> ekern (what the converter writes) -> kern (get_kern_from_ekern) -> ekern again: the original ekern; the kern text in
    between is a kern document (its headers are the plain ones).  Real outputs compared by the harness, logged as one event."""
    import kernpy as kp

    def k2e(t):
        d, e = kp.loads(t)
        if e:
            return None
        return kp.dumps(d, spine_types=['**kern'], include=kp.BEKERN_CATEGORIES, encoding=kp.Encoding.eKern)
    try:
        e1 = k2e(text)
        if e1 is None or e1 == '':
            return []
        n1 = kp.get_kern_from_ekern(e1)
        e2 = k2e(n1)
        return [{'ev': 'roundtrip', 'same': e2 == e1, 'iskern': '**e' not in n1.split('\n')[0]}]
    except Exception:  # noqa
        return [{'ev': 'roundtrip', 'same': False, 'iskern': False}]


def make_contents(seed):
    """the real texts behind the labels, and what the API produces for them."""
    import kernpy as kp
    r = random.Random(seed)

    def one_doc():
        lines = lyric_doc(r, WEIRD[:7])
        if lines is None:
            raise MachineryError('could not generate a document with a lyrics spine')
        return lines

    for attempt in range(200):
        docs_ = [one_doc(), one_doc()]
        k1 = session.render(docs_[0], eol='\r\n', final_eol=False)          # CRLF, no final newline
        k2 = session.render(docs_[1], eol='\n', final_eol=True)
        bad_lines = [dict(e) for e in docs_[0]]
        rows = [i for i, e in enumerate(bad_lines) if e['ev'] == 'row' and e['cells'][0]['k'] in ('note', 'chord', 'null')]
        if not rows:
            continue
        i = rows[0]
        bad_lines[i] = dict(bad_lines[i], cells=[gen.lit('err', 'U4c')] + bad_lines[i]['cells'][1:])
        # blank lines before the first record (they count as lines: the reported error line must be the same through load and loads)
        kbad = '\n\r\n\n' + session.render(bad_lines)

        def api_k2e(text):
            d, e = kp.loads(text)
            if e:
                return None
            return kp.dumps(d, spine_types=['**kern'], include=kp.BEKERN_CATEGORIES, encoding=kp.Encoding.eKern)
        try:
            e1, e2 = api_k2e(k1), api_k2e(k2)
            bad_ok = api_k2e(kbad) is not None
        except Exception as ex:  # noqa  the in-memory API raised on a generated, well-formed text: compare with the file path
            return {'_api_raised': type(ex).__name__ + ': ' + str(ex)[:100], 'K1': k1, 'K2': k2}
        if e1 is None or e2 is None or bad_ok:
            continue
        n1, n2 = kp.get_kern_from_ekern(e1), kp.get_kern_from_ekern(e2)
        d1 = kp.dumps(kp.loads(k1)[0])
        x1 = kp.dumps(kp.loads(k1)[0], **dump_options())
        table = {'K1': k1, 'K2': k2, 'KBAD': kbad, 'E1': e1, 'E2': e2, 'N1': n1, 'N2': n2, 'D1': d1, 'X1': x1, 'T': 'just some text\n', 'Z': ''}
        if kp.dumps(kp.loads(k1)[0], **empty_options()) != '':
            raise MachineryError('the empty selection does not give the empty string')
        if len(set(table.values())) == len(table):
            return table
    raise MachineryError('could not build distinguishable file contents')


def dump_options():
    """every option of dump / dumps away from its default (a forgotten keyword in either function shows)"""
    import kernpy as kp
    C = kp.TokenCategory
    return dict(spine_types=['**kern', '**text'], include=[C.CORE, C.STRUCTURAL, C.BARLINES, C.SIGNATURES, C.LYRICS], exclude=[C.DECORATION, C.CLEF],
                encoding=kp.Encoding.eKern, spine_ids=[0, 1])


def empty_options():
    """a selection that keeps nothing: a known spine type the document does not have"""
    return dict(spine_types=['**harm'])


TREES = {
    1: {('', 'a', 'krn'): 'K1', ('', 'b', 'kern'): 'K2', ('', 'c', 'ekrn'): 'E1', ('sub', 'd', 'krn'): 'K2', ('sub', 'e', 'ekern'): 'E2', ('', 'x', 'txt'): 'T',
        ('sub', 'a', 'krn'): 'K2'},
    2: {('', 'a', 'krn'): 'KBAD', ('', 'b', 'krn'): 'K1', ('sub', 'd', 'krn'): 'K1', ('', 'x', 'txt'): 'T'},
    3: {('', 'c', 'ekrn'): 'E2', ('sub', 'e', 'ekrn'): 'E1'},
}


def fpath(root, p):
    d, s, x = p
    return os.path.join(root, d, f'{s}.{x}') if d else os.path.join(root, f'{s}.{x}')


def write_bytes(path, text):
    os.makedirs(os.path.dirname(path), exist_ok=True)
    with open(path, 'w', encoding='utf-8', newline='') as f:
        f.write(text)


def listing(root, table):
    inv = {v: k for k, v in table.items()}
    out = []
    for dp_, dn, fn in os.walk(root):
        for f in fn:
            full = os.path.join(dp_, f)
            rel = os.path.relpath(dp_, root).replace(os.sep, '/')
            rel = '' if rel == '.' else rel
            stem, _, suf = f.rpartition('.')
            with open(full, 'r', encoding='utf-8', newline='') as fh:
                data = fh.read()
            out.append([rel, stem, suf, inv.get(data, 'UNKNOWN:' + str(abs(hash(data)) % 10000))])
    return sorted(out)


def cli(argv, subprocess_mode=False, cwd=None):
    if subprocess_mode:
        env = dict(os.environ, PYTHONPATH=os.environ.get('VERIF_REPO', '/repo'), PYTHONWARNINGS='ignore')
        p = subprocess.run([sys.executable, '-m', 'kernpy'] + argv, cwd=cwd, env=env, stdout=subprocess.PIPE, stderr=subprocess.PIPE)
        return p.returncode == 0
    import kernpy.__main__ as km
    old = sys.argv
    sys.argv = ['kernpy'] + argv
    try:
        with contextlib.redirect_stdout(io.StringIO()), contextlib.redirect_stderr(io.StringIO()):
            km.main()
        return True
    except SystemExit as ex:
        return ex.code in (0, None)
    except Exception:  # noqa
        return False
    finally:
        sys.argv = old


def replay(i):
    """one enumerated behaviour -> a recorded run."""
    import kernpy as kp
    hist = _CTX['hists'][i]
    table = _CTX['table']
    sub = (i == _CTX['subproc'])
    root = tempfile.mkdtemp(prefix='kernpy_c20_')
    try:
        for p, lab in TREES[hist[0]['init']].items():
            write_bytes(fpath(root, p), table[lab])
        log = [{'ev': 'init', 'snap': listing(root, table)}]
        # load(path) vs loads(text) for every kern file of the initial tree
        for p, lab in TREES[hist[0]['init']].items():
            if lab in ('K1', 'K2', 'KBAD'):
                path = fpath(root, p)
                with open(path, 'r', encoding='utf-8', newline='') as fh:
                    text = fh.read()
                try:
                    # the documented entry points and their deprecated twins (read / create) in turn
                    with warnings.catch_warnings():
                        warnings.simplefilter('ignore')
                        d1, e1 = kp.load(path) if (i + len(log)) % 3 else kp.read(path)
                        d2, e2 = kp.loads(text) if (i + len(log)) % 2 else kp.create(text)
                    same = session.snapshot(d1) == session.snapshot(d2) and [(x.line, x.encoding) for x in e1] == [(x.line, x.encoding) for x in e2]
                    session.spoil_document(d1)          # both documents belong to the caller; the same text / file is loaded again later
                    session.spoil_document(d2)
                except Exception:  # noqa
                    same = False
                log.append({'ev': 'load', 'p': list(p), 'same': same})
        doc1 = kp.loads(table['K1'])[0]
        for a in hist[1:]:
            p = tuple(a['p'])
            ok = True
            if a['act'] == 'dump':
                try:
                    if (i + len(log)) % 3 == 0:            # the deprecated twin of dump
                        with warnings.catch_warnings():
                            warnings.simplefilter('ignore')
                            kp.store(doc1, fpath(root, p), kp.ExportOptions())
                    else:
                        kp.dump(doc1, fpath(root, p))
                except Exception:  # noqa
                    ok = False
            elif a['act'] == 'redump':
                try:
                    top = os.path.join(root, p[0].split('/')[0])
                    if p[0] and os.path.isdir(top):
                        shutil.rmtree(top)                 # the caller removes the output directory ...
                    kp.dump(doc1, fpath(root, p))          # ... and dumps there again
                except Exception:  # noqa
                    ok = False
            elif a['act'] == 'dump_empty':
                try:
                    kp.dump(doc1, fpath(root, p), **empty_options())
                except Exception:  # noqa
                    ok = False
            elif a['act'] == 'dump_opts':
                try:
                    if (i + len(log)) % 3 == 0:
                        from kernpy.core import generic
                        o = dump_options()
                        if 'encoding' in o:
                            o['kern_type'] = o.pop('encoding')
                        with warnings.catch_warnings():
                            warnings.simplefilter('ignore')
                            kp.store(doc1, fpath(root, p), generic.Generic.parse_options_to_ExportOptions(**o))
                    else:
                        kp.dump(doc1, fpath(root, p), **dump_options())
                except Exception:  # noqa
                    ok = False
            else:
                flag = '--kern2ekern' if a['act'].startswith('k2e') else '--ekern2kern'
                if a['act'].endswith('_file'):
                    argv = [flag, '--input_path', fpath(root, p)]
                    if a['out']:
                        argv += ['--output_path', os.path.join(root, 'out.ekrn' if flag == '--kern2ekern' else 'out.krn')]
                else:
                    argv = [flag, '--input_path', os.path.join(root, p[0]) if p[0] else root]
                    if a['rec']:
                        argv.append('-r')
                ok = cli(argv, subprocess_mode=sub, cwd=root)
            log.append({'ev': 'act', 'act': a['act'], 'p': list(p), 'out': a['out'], 'rec': a['rec'], 'snap': listing(root, table), 'exit_ok': ok})
        return log
    finally:
        shutil.rmtree(root, ignore_errors=True)


def describe(ev):
    if ev['ev'] == 'act':
        return f"{ev['act']} {'/'.join(x for x in ev['p'][:1] if x)}/{ev['p'][1]}.{ev['p'][2]} out={ev['out']} rec={ev['rec']} -> " + \
            ', '.join(f"{d + '/' if d else ''}{s}.{x}={lab}" for d, s, x, lab in ev['snap'])
    return str(ev)[:200]


def main():
    a = parse_args()
    quick = a.tier == 'quick'
    run = Run('C20', a.tier, a.seed, assumptions=[
        'I8: "what the API produces" for kern2ekern is dumps(loads(text), spine_types=["**kern"], include=BEKERN_CATEGORIES, encoding=eKern); '
        'an input whose import reports errors is not converted', 'UTF-8 locale; eKern inputs are converter outputs (LF line ends)',
        'when x.krn and x.kern are both present the .kern file is converted last'])
    run.rule = ('every action sequence of length %d over 5 action kinds on 3 initial trees (files with LF/CRLF, with/without final newline, '
                'non-ASCII lyrics, one kern file with import errors), each replayed in a fresh scratch directory; non-trivial = distinct '
                'sequences containing a directory conversion or an explicit output path') % (2 if quick else 3)
    mc = tlc.run_tlc('MC_FileCli', 'MC_FileCli_2.cfg' if quick else 'MC_FileCli_3.cfg', workers=16, timeout=3000)
    run.add_tlc(mc)
    hists = [h['hist'] for h in mc.vp]
    if not hists:
        raise MachineryError('MC_FileCli emitted no behaviour')
    if a.replay_case and 'load_seed' in a.replay_case['case']:
        c = load_case(a.replay_case['case']['load_seed'])
        lv, tl = tlc.validate_traces('Trace_FileCli', [c['log']], shards=1)
        run.traces = 1
        for pos, clause in lv[0].fails:
            run.violation({'text': c['text'], 'load_seed': c['seed'], 'clause': clause, 'input': c['text'][:300]},
                          f'clause {clause} fails (event {pos} of {[e["ev"] for e in c["log"]]}) for the generated file contents {c["text"][:300]!r}', classes=(), symptom=clause)
        return run.finish()
    if a.replay_case:
        hists = [a.replay_case['case']['history']]
        a.seed = a.replay_case['case'].get('content_seed', a.seed)
    rnd = random.Random(a.seed)
    if len(hists) > 12000:
        hists = rnd.sample(hists, 12000)
    _CTX['hists'] = hists
    _CTX['table'] = make_contents(a.seed)
    if '_api_raised' in _CTX['table']:
        # loads(text) raised on well-formed text: does load(path) read the same bytes?  recorded and judged like any other run
        import kernpy as kp
        logs = []
        for lab in ('K1', 'K2'):
            d = tempfile.mkdtemp(prefix='kernpy_c20_')
            try:
                pth = os.path.join(d, 'a.krn')
                write_bytes(pth, _CTX['table'][lab])
                try:
                    kp.load(pth)
                    file_ok = True
                except Exception:  # noqa
                    file_ok = False
                try:
                    kp.loads(_CTX['table'][lab])
                    text_ok = True
                except Exception:  # noqa
                    text_ok = False
                logs.append([{'ev': 'init', 'snap': [['', 'a', 'krn', lab]]}, {'ev': 'load', 'p': ['', 'a', 'krn'], 'same': file_ok == text_ok and file_ok}])
            finally:
                shutil.rmtree(d, ignore_errors=True)
        verdicts, tl = tlc.validate_traces('Trace_FileCli', logs, shards=1)
        for t in tl:
            run.add_tlc(t)
        run.traces = len(logs)
        for log, v in zip(logs, verdicts):
            for pos, clause in v.fails:
                run.violation({'text': _CTX['table'][log[0]['snap'][0][3]], 'api_exception': _CTX['table']['_api_raised']},
                              f"clause {clause}: the in-memory API raised ({_CTX['table']['_api_raised']}) on a generated well-formed text, "
                              f"load(path) of the same bytes behaves differently or fails too", classes=(), symptom=clause)
        if not run.violations:
            raise MachineryError('the API raised on generated text but the file path agrees: ' + _CTX['table']['_api_raised'])
        return run.finish()
    _CTX['subproc'] = rnd.randrange(len(hists))
    import multiprocessing as mp
    with mp.get_context('fork').Pool(16) as pool:
        logs = pool.map(replay, range(len(hists)), chunksize=16)
    # load(path) == loads(text) on a population of generated files of its own (the two action-sequence files are only two texts)
    nload = 60 if quick else 600
    lseeds = [a.seed * 1000 + j for j in range(nload)]
    with mp.get_context('fork').Pool(16) as pool:
        lcases = [c for c in pool.map(load_case, lseeds, chunksize=4) if c]
    # binding self-test: a corrupted label must be rejected
    import copy
    probe = copy.deepcopy(next(l for l in logs if any(e['ev'] == 'act' and e['snap'] for e in l)))
    k = next(i for i, e in enumerate(probe) if e['ev'] == 'act' and e['snap'])
    probe[k]['snap'][0][3] = 'T' if probe[k]['snap'][0][3] != 'T' else 'K1'
    v, _ = tlc.validate_traces('Trace_FileCli', [probe], shards=1)
    if [k + 1, 'cli.directory_equals_api_result'] not in v[0].fails:
        raise MachineryError('binding self-test failed: corrupted directory listing accepted')
    verdicts, tl = tlc.validate_traces('Trace_FileCli', logs, timeout=2400)
    for t in tl:
        run.add_tlc(t)
    run.traces = len(logs)
    run.evaluations = sum(len(l) - 1 for l in logs)
    for log, h, v in zip(logs, hists, verdicts):
        if v.reached != v.length:
            ev = log[v.reached]
            run.violation({'history': h, 'event': ev, 'input': str(h)[:300], 'content_seed': a.seed},
                          f'the specification does not allow recorded step {v.reached + 1}: {describe(ev)[:300]}', classes=(), symptom='blocked')
            continue
        seen = set()
        for pos, clause in v.fails:
            if clause in seen:
                continue
            seen.add(clause)
            ev = log[pos - 1]
            run.violation({'history': h, 'event_index': pos, 'clause': clause, 'event': ev, 'input': str(h)[:300], 'content_seed': a.seed},
                          f'clause {clause} fails at step {pos} of {[x.get("act", x.get("init")) for x in h]}: {describe(ev)[:400]}',
                          classes=(), symptom=clause)
        if any(x.get('act', '').endswith('_dir') or x.get('out') for x in h[1:]):
            run.nontrivial.add(str(h))
    lv, tl = tlc.validate_traces('Trace_FileCli', [c['log'] for c in lcases], timeout=1200)
    for t in tl:
        run.add_tlc(t)
    run.traces += len(lcases)
    run.evaluations += len(lcases)
    for c, v in zip(lcases, lv):
        if v.reached != v.length:
            raise MachineryError('Trace_FileCli blocked on a load record')
        for pos, clause in v.fails:
            run.violation({'text': c['text'], 'load_seed': c['seed'], 'clause': clause, 'input': c['text'][:300]},
                          f'clause {clause} fails (event {pos} of {[e["ev"] for e in c["log"]]}) for the generated file contents {c["text"][:300]!r}', classes=(), symptom=clause)
        if any(ord(ch) > 127 for ch in c['text']):
            run.nontrivial.add('load:' + str(c['seed']))
    run.note('load_population', len(lcases))
    run.note('behaviours_replayed', len(logs))
    run.note('subprocess_behaviour', str(hists[_CTX['subproc']])[:300])
    run.sample({'sequence': [describe(e)[:200] for e in logs[len(logs) // 2] if e['ev'] == 'act']})
    run.sample({'K1 (CRLF, no final newline)': _CTX['table']['K1'][:200], 'E1 (API value)': _CTX['table']['E1'][:200]})
    run.exhaustive = True
    return run.finish()


if __name__ == '__main__':
    main_wrapper(main)
