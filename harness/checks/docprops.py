"""Session builders and the common main() of the document-level checks (C01, C03, C04, C05, C06, C07, C10, C13, C17)."""
from __future__ import annotations

import itertools
import random

from ..common import Run, main_wrapper, parse_args, MachineryError, cps, uncps
from .. import tlc, session, gen
from . import docs

CATS = [l[1] for l in [
    (0, "STRUCTURAL"), (1, "HEADER"), (1, "SPINE_OPERATION"), (0, "CORE"), (1, "NOTE_REST"), (2, "DURATION"), (2, "NOTE"), (3, "PITCH"),
    (3, "DECORATION"), (3, "ALTERATION"), (2, "REST"), (1, "CHORD"), (1, "EMPTY"), (1, "ERROR"), (0, "SIGNATURES"), (1, "CLEF"),
    (1, "TIME_SIGNATURE"), (1, "METER_SYMBOL"), (1, "KEY_SIGNATURE"), (1, "KEY_TOKEN"), (0, "ENGRAVED_SYMBOLS"), (0, "OTHER_CONTEXTUAL"),
    (0, "BARLINES"), (0, "COMMENTS"), (1, "FIELD_COMMENTS"), (1, "LINE_COMMENTS"), (0, "DYNAMICS"), (0, "HARMONY"), (0, "FINGERING"),
    (0, "LYRICS"), (0, "INSTRUMENTS"), (0, "IMAGE_ANNOTATIONS"), (1, "BOUNDING_BOXES"), (1, "LINE_BREAK"), (0, "OTHER"), (0, "MHXM"), (0, "ROOT")]]
ENCS = ['kern', 'ekern', 'bkern', 'bekern', 'akern', 'aekern']
PROFILES = {
    'main': {},
    'hidden': {'hidden_bars': True},
    'explore_chords': {'chords': 'explore'},
    'kern_only': {'kern_only': True, 'chords': 'core'},
    'blank_free_text': {'first_kern': 0.7, 'types': ['**text', '**dynam', '**harm', '**fing'], 'nonkern_tandem': False, 'max_rows': 12},
    'multi_sigs': {'multi_sigs': True},
    # scores with a **root spine (notes and rests read by the kern grammar, as in chorale analyses) next to **kern and other spines
    'with_root': {'types': ['**root', '**root', '**root', '**text', '**harm'], 'first_kern': 0.5, 'root_plain': True},          # signifiers of more than one character ('&(' '[y' 'Ww' 'L<' ...) among the others
}


def make_doc(seed, profile='main', **over):
    r = random.Random(seed)
    p = dict(PROFILES[profile])
    p.update(over)
    g = gen.DocGen(r, **p)
    lines, types = g.document()
    return r, lines, types


def finish_session(lines, evs, text, seed, tags=(), extra_classes=()):
    return {'log': evs, 'text': text, 'classes': sorted(gen.doc_classes(lines) | set(extra_classes)), 'seed': seed, 'tags': list(tags)}


def reuse_probe(doc, seed, evs, name, profile='main', need='wider', ranged=False, spine_types=None, frm=1, snap=None, **mk):
    """ONE Exporter and ONE ExportOptions object (the caller's own) serve the document, ANOTHER document (wider, or with more
    measures) and the document again, without being touched in between; every export must be what kp.dumps returns for the same
    options.  Logged as a comparison between real outputs (flag `name`)."""
    import kernpy as kp
    n = len(doc.get_spine_ids())
    M = len(doc.measure_start_tree_stages)
    if ranged and M < 1:
        return
    other = None
    for k in range(1, 10):
        r2, lines2, types2 = make_doc(seed * 31 + k, profile, **mk)
        try:
            cand, _ = kp.loads(session.render(lines2))
        except Exception:  # noqa
            continue
        if (need == 'wider' and len(types2) > n) or (need == 'more_measures' and len(cand.measure_start_tree_stages) > M):
            other = cand
            break
    if other is None:
        return
    kw = {}
    opts = kp.ExportOptions()
    if spine_types is not None:
        opts.spine_types = list(spine_types)
        kw['spine_types'] = list(spine_types)
    if ranged:
        opts.from_measure, opts.to_measure = min(frm, M), M
        kw.update(from_measure=min(frm, M), to_measure=M)
    ex = kp.Exporter()

    def out(f):
        try:
            return ('ok', f())
        except Exception as e:  # noqa
            return ('exc', type(e).__name__)
    ok = True
    for d in (doc, other, doc):
        a = out(lambda: ex.export_string(d, opts))
        b = out(lambda: kp.dumps(d, **kw))
        ok = ok and a == b
    evs.append({'ev': 'call', 'op': 'flag', 'name': name, 'value': ok, 'args': {}, 'snap': session.snapshot(doc) if snap is None else snap})


def long_repetition_probe(seed, evs, what, target_rows=1150):
    """A score of more than a thousand lines (deeper than Python's default recursion limit) built as K repetitions of the body of a short
    single-spine score: its export / token listing must be the short score's, with the body K times.  A comparison between real
    outputs (the short score's own answers are validated by TLC in the main populations), logged as a flag."""
    import kernpy as kp
    r, lines, types = make_doc(seed * 17 + 3, 'main', max_rows=8, min_rows=4, max_spines=1, kern_only=True, splits=False, chords='core',
                               pre_comments=False, post_comments=False, mid_comments=False)
    block = lines[1:-1]
    if not block:
        return
    K = max(2, -(-target_rows // len(block)))
    try:
        short, _ = kp.loads(session.render(lines))
        big, _ = kp.loads(session.render([lines[0]] + block * K + [lines[-1]]))
        if what == 'dumps':
            g = session.grid_of(kp.dumps(short))
            ok = session.grid_of(kp.dumps(big)) == g[:1] + g[1:-1] * K + g[-1:]
            name = 'dumps.grid_of_a_very_long_score_is_the_repetition_of_its_block'
        else:
            t = [(x.category.name, x.encoding) for x in short.get_all_tokens()]
            ok = [(x.category.name, x.encoding) for x in big.get_all_tokens()] == t[:1] + t[1:-1] * K + t[-1:]
            ok = ok and len(big.get_unique_token_encodings()) == len(short.get_unique_token_encodings()) and bool(kp.is_monophonic(big)) == bool(kp.is_monophonic(short))
            name = 'listing.of_a_very_long_score_is_the_repetition_of_its_block'
    except Exception:  # noqa
        ok = False
        name = ('dumps.grid' if what == 'dumps' else 'listing.') + '_very_long_score_raised'
    evs.append({'ev': 'call', 'op': 'flag', 'name': name, 'value': ok, 'args': {}, 'snap': evs[-1].get('snap', '') if evs else ''})


def many_measures_probe(seed, evs, target_measures=300):
    """A score with several hundred measures (more than any small-integer table or cache holds) built as K repetitions of the body of a
    short single-spine score whose body begins with a barline.  Iterating it yields 1..M, the measure count is M, ranges counted from
    its beginning and from its END (to_measure = M included) have the body lines of the same ranges of the 3-repetition score, and
    an end beyond M is rejected.  Comparisons between real outputs (the small scores are validated by TLC in the main populations)."""
    import kernpy as kp
    r, lines, types = make_doc(seed * 31 + 5, 'kern_only', max_rows=9, min_rows=5, max_spines=1, kern_only=True, splits=False, chords='core',
                               pre_comments=False, post_comments=False, mid_comments=False, opening_bar=1.0, final_bar=0.0, hidden_bars=False, mid_sigs=False)
    body = lines[1:-1]
    first_bar = next((i for i, e in enumerate(body) if e['ev'] == 'row' and e['cells'][0]['k'] == 'bar'), None)
    if first_bar is None:
        return
    pre, block = body[:first_bar], body[first_bar:]
    nbars = sum(1 for e in block if e['ev'] == 'row' and e['cells'][0]['k'] == 'bar')
    if not nbars or len(block) < 2:
        return
    K = max(4, -(-target_measures // nbars))
    data = lambda txt: [ln for ln in txt.split('\n') if ln and not ln.startswith(('*', '!'))]  # noqa
    name = 'dumps.range_of_a_score_with_hundreds_of_measures'
    try:
        two, _ = kp.loads(session.render([lines[0]] + pre + block * 3 + [lines[-1]]))
        big, _ = kp.loads(session.render([lines[0]] + pre + block * K + [lines[-1]]))
        m2, M = two.measures_count(), big.measures_count()
        m = m2 - kp.loads(session.render([lines[0]] + pre + block * 2 + [lines[-1]]))[0].measures_count()
        ok = m == nbars and M == m2 + (K - 3) * m and list(big) == list(range(1, M + 1))
        for x, y in [(0, 0), (1, 0), (1, 1), (m - 1, 0), (m, 0), (m, m - 1), (min(m + 1, m2 - 1), 0)]:
            if x < y or m2 - x < 1:
                continue
            ok = ok and data(kp.dumps(big, from_measure=M - x, to_measure=M - y)) == data(kp.dumps(two, from_measure=m2 - x, to_measure=m2 - y))
            ok = ok and data(kp.dumps(big, from_measure=M - x)) == data(kp.dumps(two, from_measure=m2 - x))
        for a, b in [(1, 1), (1, m), (2, m), (m, m)]:
            if a <= b <= m2:
                ok = ok and data(kp.dumps(big, from_measure=a, to_measure=b)) == data(kp.dumps(two, from_measure=a, to_measure=b))
        for j in sorted({254, 255, 256, 257, 258, M // 2} & set(range(m + 1, M - m))):      # measures in the middle: periodic in the block
            jj = (j - 1) % m + 1 + m                                                       # the same measure of the second block
            ok = ok and data(kp.dumps(big, from_measure=j, to_measure=j)) == data(kp.dumps(two, from_measure=jj, to_measure=jj))
        try:
            kp.dumps(big, from_measure=1, to_measure=M + 1)
            ok = False
        except ValueError:
            pass
    except Exception:  # noqa
        ok = False
        name = 'dumps.range_of_a_score_with_hundreds_of_measures_raised'
    evs.append({'ev': 'call', 'op': 'flag', 'name': name, 'value': ok, 'args': {}, 'snap': evs[-1].get('snap', '') if evs else ''})


def features(lines):
    """tags describing what a document exercises (for the non-triviality counts)."""
    tags = set()
    for e in lines:
        if e['ev'] == 'row':
            ks = {c['k'] for c in e['cells']}
            for k in ('split', 'join', 'chord', 'bar', 'fcom', 'clef'):
                if k in ks:
                    tags.add(k)
            if len(ks & {'split', 'join', 'term'}) > 1:
                tags.add('mixed-ops')
        if e['ev'] == 'global':
            tags.add('gcom')
        if e['ev'] == 'header':
            if len(e['cells']) > 1:
                tags.add('multi-spine')
            if any(uncps(c['t']) not in ('**kern',) for c in e['cells']):
                tags.add('non-kern')
    return tags


# ------------------------------------------------------------------------------------------------
# C03 / C01
# ------------------------------------------------------------------------------------------------
def sess_c03(seed, profile='main', dots=False, ext=False):
    if ext:
        # documents of the EXTENDED row machine: add-spine operators with the line that names the new spine, several sections
        from . import extras
        r = random.Random(seed)
        lines = extras.ext_document(r)
        while lines[-1]['ev'] == 'unsupported':
            lines = extras.ext_document(r)
        evs, doc, text = session.record_import(lines)
        if doc is not None:
            for enc in ('kern', 'ekern'):
                evs.append(session.record_call(doc, {'op': 'dumps', 'args': session.dumps_args(enc=enc), 'exact': True}))
        return finish_session(lines, evs, text, seed, features(lines) | {'extended-machine'})
    if dots:
        # cells that LOOK like null tokens but are not ('...', '..', '.*'): verbatim, and their lines are not all-null lines
        saved = dict(gen.OWNPOOL)
        try:
            for k in list(gen.OWNPOOL):
                gen.OWNPOOL[k] = ['...', '..', 'la', '....']
            r, lines, types = make_doc(seed, profile, max_rows=12, first_kern=0.8, types=['**text', '**dynam', '**harm', '**fing'], nonkern_tandem=False)
        finally:
            gen.OWNPOOL.update(saved)
    else:
        r, lines, types = make_doc(seed, profile)
    evs, doc, text = session.record_import(lines)
    if doc is not None:
        evs.append(session.record_call(doc, {'op': 'dumps', 'args': session.dumps_args(), 'exact': True}))
        evs.append(session.record_call(doc, {'op': 'dumps', 'args': session.dumps_args(enc='ekern'), 'exact': True}))
        reuse_probe(doc, seed, evs, 'dumps.grid_same_with_reused_exporter_and_options_on_a_wider_document', profile=profile, need='wider', max_rows=8)
        if seed % 40 == 0:
            long_repetition_probe(seed, evs, 'dumps')
    return finish_session(lines, evs, text, seed, features(lines))


def sess_c01(seed, profile='main', ext=False):
    if ext:
        # documents of the EXTENDED row machine: add-spine operators with the line that names the new spine, several sections
        from . import extras
        r = random.Random(seed)
        lines = extras.ext_document(r)
        while lines[-1]['ev'] == 'unsupported':
            lines = extras.ext_document(r)
    else:
        r, lines, types = make_doc(seed, profile)
    evs, doc, text = session.record_import(lines)
    if doc is not None:
        evs.append(session.record_call(doc, {'op': 'dumps', 'args': session.dumps_args(), 'exact': True}))
        k1 = len(evs)
        evs.append(session.record_call(doc, {'op': 'dumps', 'args': session.dumps_args(enc='ekern'), 'exact': True}))
        k2 = len(evs)
        evs.append(session.record_reexport(doc, k1, 'kern'))
        evs.append(session.record_reexport(doc, k2, 'ekern'))
        for _ in range(2):
            alt, pairs = gen.rearranged(lines, r)
            if pairs:
                evs.append(session.record_arrangement(doc, k1, alt, pairs))
    return finish_session(lines, evs, text, seed, features(lines))


# ------------------------------------------------------------------------------------------------
# C04
# ------------------------------------------------------------------------------------------------
KEEP_DUR_OR_PITCH = [
    (None, None), (None, ['DECORATION']), (None, ['BARLINES', 'SIGNATURES']), (['CORE', 'STRUCTURAL', 'BARLINES'], None),
    (['DURATION', 'STRUCTURAL'], None), (['PITCH', 'ALTERATION', 'STRUCTURAL', 'SIGNATURES'], None), (None, ['PITCH']),
    (None, ['DURATION', 'COMMENTS']), (['NOTE_REST', 'CHORD', 'STRUCTURAL', 'CLEF'], ['REST']), (None, ['ALTERATION', 'LYRICS']),
    (['CORE', 'STRUCTURAL', 'SIGNATURES', 'BARLINES', 'IMAGE_ANNOTATIONS'], None),
    # selections under which SOME notes / rests keep nothing but their signifiers (a duration-less note without its pitch, a rest without
    # duration and rest letter): their basic form is a null cell
    (None, ['PITCH', 'ALTERATION']), (None, ['DURATION', 'REST']),
]


def six_encodings(doc, evs, inc, exc, ids=None, types=None, form=0, relations=True, frm=None, to=None):
    idx = {}
    for enc in ENCS:
        evs.append(session.record_call(doc, {'op': 'dumps', 'args': session.dumps_args(types=types, ids=ids, inc=inc, exc=exc, enc=enc, frm=frm, to=to),
                                             'exact': inc is None and not exc, '_form': form, 'strict': False}))
        idx[enc] = len(evs)
    if relations:
        evs.append(session.relation(doc, 'plain_vs_ext', idx['kern'], idx['ekern'], 'kern', 'ekern'))
        evs.append(session.relation(doc, 'plain_vs_ext', idx['bkern'], idx['bekern'], 'bkern', 'bekern'))
        evs.append(session.relation(doc, 'plain_vs_ext', idx['akern'], idx['aekern'], 'akern', 'aekern'))
        evs.append(session.relation(doc, 'basic_vs_full', idx['bekern'], idx['ekern'], 'bekern', 'ekern'))
        evs.append(session.relation(doc, 'agn_vs_kern', idx['akern'], idx['kern'], 'akern', 'kern'))
    return idx


def agn_classes(lines, cats_sel=None):
    """input classes of the open agnostic findings, computed from the description."""
    cl = set()
    for c in gen.all_cells(lines):
        ns = [c['n']] if c['k'] == 'note' else c['ns'] if c['k'] == 'chord' else []
        for n in ns:
            if n['acc'] and not n['rest']:
                a = uncps(n['acc'])
                if a.strip('#-') != '':
                    cl.add('natural_or_display_suffix')
                cl.add('note_with_accidental')
    return cl


def sess_c04(seed, profile='main', own_types=False, blanks=False):
    if blanks:
        # free text with runs of blanks, leading / trailing blanks and other white space: identical in the six encodings, character for character
        saved = dict(gen.OWNPOOL)
        try:
            for k in list(gen.OWNPOOL):
                gen.OWNPOOL[k] = ['foo  bar', ' lead', 'trail ', 'nb\u00a0sp', 'x\x0by', 'a   b', 'two  runs  here', '\u3000wide']
            return sess_c04(seed, profile='blank_free_text')
        finally:
            gen.OWNPOOL.clear()
            gen.OWNPOOL.update(saved)
    if own_types:
        # spine types of the user's own whose names begin with the letters of an encoding prefix (e, b, be, a, ae): the header is
        # '**' + prefix + original type all the same ('**embel' in eKern is '**eembel')
        r, lines, types = make_doc(seed, profile, max_rows=10, first_kern=0.7, types=['**embel', '**beats', '**artic', '**aeon', '**bow', '**text'])
    else:
        r, lines, types = make_doc(seed, profile)
    evs, doc, text = session.record_import(lines)
    if doc is not None and own_types:
        ts = sorted(set(types))
        for inc, exc in [KEEP_DUR_OR_PITCH[0]] + r.sample(KEEP_DUR_OR_PITCH[1:], 1):
            six_encodings(doc, evs, inc, exc, types=ts, form=r.randrange(6))
        return finish_session(lines, evs, text, seed, features(lines) | {'own-spine-types'}, agn_classes(lines))
    if doc is not None:
        for inc, exc in [KEEP_DUR_OR_PITCH[0]] + r.sample(KEEP_DUR_OR_PITCH[1:], 2):
            six_encodings(doc, evs, inc, exc, form=r.randrange(6))
        # "every document and option set": also a measure range (the six views of an excerpt, with its rebuilt header lines)
        M = len(doc.measure_start_tree_stages)
        if M >= 1:
            a = r.randint(1, M)
            b = r.randint(a, M)
            inc, exc = r.choice(KEEP_DUR_OR_PITCH)
            six_encodings(doc, evs, inc, exc, form=r.randrange(6), frm=a, to=b if r.random() < 0.8 else None)
    return finish_session(lines, evs, text, seed, features(lines), agn_classes(lines))


# ------------------------------------------------------------------------------------------------
# C05 / C13 / C06
# ------------------------------------------------------------------------------------------------
def sess_c05(seed, profile='main', npairs=40, big=6, enc=None):
    r, lines, types = make_doc(seed, profile, max_rows=14)
    evs, doc, text = session.record_import(lines)
    # the property names no encoding: the sessions alternate between the extended form (every sub-part visible) and the default kern form
    enc = enc or ('ekern' if seed % 2 else 'kern')
    if doc is not None:
        # the unfiltered export is the BASE every filtered export is judged relative to
        evs.append(session.record_call(doc, {'op': 'dumps', 'args': session.dumps_args(enc=enc), 'exact': True, 'role': 'base'}))
        base = len(evs)
        evs.append(session.record_call(doc, {'op': 'same_as', '_what': 'dumps', 'ref': base,
                                             'args': session.dumps_args(inc=CATS, exc=[], enc=enc), '_form': 1}))   # include=all, exclude=nothing
        k = 0
        for c in CATS:
            for inc, exc in ((([c]), None), (None, [c])):
                k += 1
                evs.append(session.record_call(doc, {'op': 'dumps', 'args': session.dumps_args(inc=inc, exc=exc, enc=enc), '_form': k, 'base': base}))
        for _ in range(npairs):
            a, b = r.choice(CATS), r.choice(CATS)
            evs.append(session.record_call(doc, {'op': 'dumps', 'args': session.dumps_args(inc=[a], exc=[b], enc=enc), '_form': r.randrange(9), 'base': base}))
        for _ in range(big):
            inc = r.sample(CATS, r.randint(0, 6)) if r.random() < 0.8 else None
            exc = r.sample(CATS, r.randint(0, 4))
            evs.append(session.record_call(doc, {'op': 'dumps', 'args': session.dumps_args(inc=inc, exc=exc, enc=enc), '_form': r.randrange(9), 'base': base}))
    return finish_session(lines, evs, text, seed, features(lines))


def sess_c05_allpairs(seed, profile='main'):
    """every include/exclude pair of single categories (37 x 37) on one small document."""
    r, lines, types = make_doc(seed, profile, max_rows=8, max_spines=3)
    evs, doc, text = session.record_import(lines)
    enc = 'ekern' if seed % 2 else 'kern'
    if doc is not None:
        evs.append(session.record_call(doc, {'op': 'dumps', 'args': session.dumps_args(enc=enc), 'exact': True, 'role': 'base'}))
        base = len(evs)
        k = 0
        for a in CATS:
            for b in CATS:
                k += 1
                evs.append(session.record_call(doc, {'op': 'dumps', 'args': session.dumps_args(inc=[a], exc=[b], enc=enc), '_form': k % 9, 'base': base}))
    return finish_session(lines, evs, text, seed, features(lines) | {'all-pairs'})


def subsets(xs):
    return [list(c) for n in range(len(xs) + 1) for c in itertools.combinations(xs, n)]


def sess_c06_ext(seed):
    """documents of the EXTENDED row machine (spines added with '*+' and named by a later line, several sections) and documents
    without any measure: projections by type and the spine-type query (the header line of the projection may be a LATER line)"""
    from . import extras
    r = random.Random(seed)
    if seed % 4 == 0:
        types = [r.choice(['**kern', '**text', '**dynam']) for _ in range(r.choice([1, 2, 3]))]
        lines = [{'ev': 'header', 'cells': [gen.lit('hdr', t) for t in types]}, {'ev': 'row', 'cells': [gen.TERM() for _ in types]}]
    else:
        lines = extras.ext_document(r)
        while lines[-1]['ev'] == 'unsupported':
            lines = extras.ext_document(r)
    evs, doc, text = session.record_import(lines)
    if doc is not None:
        present = sorted({uncps(c['t']) for e in lines if e['ev'] in ('header', 'row') for c in e['cells'] if c['k'] == 'hdr'})
        evs.append(session.record_call(doc, {'op': 'dumps', 'args': session.dumps_args(types=present), 'exact': True, 'role': 'base'}))
        base = len(evs)
        pool = subsets(present + ['**mens'])
        for ts in (pool if len(pool) <= 12 else r.sample(pool, 12)):
            evs.append(session.record_call(doc, {'op': 'dumps', 'args': session.dumps_args(types=ts), 'exact': True, 'base': base}))
            evs.append(session.record_call(doc, {'op': 'spine_types', 'args': {'alltypes': False, 'types': [cps(t) for t in ts]}}))
        evs.append(session.record_call(doc, {'op': 'spine_types', 'args': {'alltypes': True, 'types': []}}))
        evs.append(session.record_call(doc, {'op': 'spine_types', 'args': {'alltypes': True, 'types': []}, '_form': 1}))
        # selection by spine id: the id of a spine is the column of its exclusive interpretation (ids start again at 0 in a new section)
        width = max(len(e['cells']) for e in lines if e['ev'] in ('header', 'row'))
        idsets = subsets(list(range(min(width, 4))))
        for ids in (idsets if len(idsets) <= 8 else r.sample(idsets, 8)):
            evs.append(session.record_call(doc, {'op': 'dumps', 'args': session.dumps_args(types=present, ids=ids), 'exact': True, 'base': base}))
        evs.append(session.record_call(doc, {'op': 'spine_ids', 'args': {}}))
    return finish_session(lines, evs, text, seed, features(lines) | {'extended-machine'})


def sess_c06(seed, profile='main', dots=False):
    if dots:
        # cells that LOOK like null tokens but are not ('...', '..', '.*'): a line holding one of them is not an all-null line
        saved = dict(gen.OWNPOOL)
        try:
            for k in list(gen.OWNPOOL):
                gen.OWNPOOL[k] = ['...', '..', 'la', '....']
            r, lines, types = make_doc(seed, profile, max_rows=12, first_kern=0.8, types=['**text', '**dynam', '**harm', '**fing'], nonkern_tandem=False)
        finally:
            gen.OWNPOOL.update(saved)
    else:
        r, lines, types = make_doc(seed, profile, max_rows=16, first_kern=0.6)
    evs, doc, text = session.record_import(lines)
    if doc is not None:
        n = len(types)
        present0 = sorted(set(types))
        # the full export (every spine, also unknown types) is the BASE every projection is judged relative to
        evs.append(session.record_call(doc, {'op': 'dumps', 'args': session.dumps_args(types=present0), 'exact': True, 'role': 'base'}))
        base = len(evs)
        for ids in subsets(list(range(n))):
            a = session.dumps_args(ids=ids if (ids != list(range(n)) or r.random() < 0.5) else None)
            evs.append(session.record_call(doc, {'op': 'dumps', 'args': a, 'exact': True, 'base': base}))
        evs.append(session.record_call(doc, {'op': 'dumps', 'args': session.dumps_args(ids=[n + 1, 0]), 'exact': True, 'base': base}))   # an id that does not exist
        present = sorted(set(types))
        pool = subsets(present + ['**mens', '**other'])
        for ts in (pool if len(pool) <= 16 else r.sample(pool, 16)):
            evs.append(session.record_call(doc, {'op': 'dumps', 'args': session.dumps_args(types=ts), 'exact': True, 'base': base}))
            evs.append(session.record_call(doc, {'op': 'spine_types', 'args': {'alltypes': False, 'types': [cps(t) for t in ts]}}))
        evs.append(session.record_call(doc, {'op': 'spine_types', 'args': {'alltypes': True, 'types': []}}))
        evs.append(session.record_call(doc, {'op': 'spine_types', 'args': {'alltypes': True, 'types': []}, '_form': 1}))
        # type names that only RESEMBLE a type of the document (a prefix, an extension, another case) select nothing: selection is by equality
        t0 = r.choice(present)
        for ts in ([t0[:-2]], [t0 + '2', t0.upper()], ['**dyn' if '**dynam' in present else t0[:-1]] + r.sample(present, r.randint(0, len(present) - 1))):
            evs.append(session.record_call(doc, {'op': 'dumps', 'args': session.dumps_args(types=ts), 'exact': True, 'base': base}))
            evs.append(session.record_call(doc, {'op': 'spine_types', 'args': {'alltypes': False, 'types': [cps(t) for t in ts]}}))
        for _ in range(6):                               # ids x types intersect
            ids = r.sample(range(n), r.randint(0, n))
            ts = r.sample(present, r.randint(0, len(present)))
            evs.append(session.record_call(doc, {'op': 'dumps', 'args': session.dumps_args(ids=ids, types=ts), 'exact': True, 'base': base}))
        # ONE Exporter and ONE default ExportOptions object (spine_ids left at None = every spine) serve this document and then a WIDER one
        import kernpy as kp
        wide = None
        for k in range(1, 8):
            r2, lines2, types2 = make_doc(seed * 31 + k, profile, max_rows=8)
            if len(types2) > n:
                try:
                    wide, _ = kp.loads(session.render(lines2))
                except Exception:  # noqa
                    wide = None
                break
        if wide is not None:
            try:
                ex, opts = kp.Exporter(), kp.ExportOptions()
                ok = ex.export_string(doc, opts) == kp.dumps(doc) and ex.export_string(wide, opts) == kp.dumps(wide) and ex.export_string(doc, opts) == kp.dumps(doc)
            except Exception:  # noqa
                ok = False
            evs.append({'ev': 'call', 'op': 'flag', 'name': 'dumps.same_with_reused_exporter_and_options_on_a_wider_document', 'value': ok, 'args': {},
                        'snap': session.snapshot(doc)})
    return finish_session(lines, evs, text, seed, features(lines))


def random_options(r, types, agn=True):
    n = len(types)
    ids = r.choice([None, None] + [r.sample(range(n), r.randint(0, n)) for _ in range(2)])
    present = sorted(set(types))
    # names that only RESEMBLE a type of the document (a prefix of it, an extension of it, another case): selection is by equality
    t0 = r.choice(present)
    near = [t0[:-2], t0 + '2', t0.upper(), '**dyn' if '**dynam' in present else t0[:-1]]
    ts = r.choice([None, None, r.sample(present, r.randint(1, len(present))), ['**kern'], present + ['**mens'],
                   r.sample(near, 2) + r.sample(present, r.randint(0, len(present) - 1))])
    # (among them selections under which a note keeps nothing but its signifiers - or nothing at all)
    inc = r.choice([None, None, [r.choice(CATS)], r.sample(CATS, r.randint(1, 5)), ['CORE', 'STRUCTURAL', 'SIGNATURES', 'BARLINES'],
                    ['DECORATION'] + r.sample(CATS, 2), ['DECORATION', 'LYRICS', 'DYNAMICS', 'BARLINES', 'STRUCTURAL']])
    exc = r.choice([None, None, [r.choice(CATS)], r.sample(CATS, r.randint(1, 3)), ['DURATION', 'PITCH', 'ALTERATION', 'REST']])
    enc = r.choice(ENCS if agn else ENCS[:4])
    return dict(types=ts, ids=ids, inc=inc, exc=exc, enc=enc)


def sess_c13(seed, profile='main', ntriples=36):
    r, lines, types = make_doc(seed, profile, max_rows=14)
    evs, doc, text = session.record_import(lines)
    if doc is not None:
        # the default EXTENDED export of every spine is the BASE the composed transformations are applied to
        evs.append(session.record_call(doc, {'op': 'dumps', 'args': session.dumps_args(types=sorted(set(types)), enc='ekern'), 'exact': True, 'role': 'base'}))
        xbase = len(evs)
        evs.append(session.record_call(doc, {'op': 'dumps', 'args': session.dumps_args(), 'exact': True, 'base': xbase}))
        base = len(evs)
        # explicit defaults are the same as omitted options
        evs.append(session.record_call(doc, {'op': 'same_as', '_what': 'dumps', 'ref': base, 'args': session.dumps_args(), '_explicit': True}))
        for _ in range(ntriples):
            o = random_options(r, types)
            evs.append(session.record_call(doc, {'op': 'dumps', 'args': session.dumps_args(**o), '_form': r.randrange(9), 'base': xbase}))
            if r.random() < 0.25:
                k = len(evs)
                evs.append(session.record_call(doc, {'op': 'same_as', '_what': 'dumps', 'ref': k, 'args': session.dumps_args(**o),
                                                     '_form': r.randrange(9), '_explicit': True}))
        reuse_probe(doc, seed, evs, 'dumps.same_with_reused_exporter_and_options_on_a_wider_document', profile=profile, need='wider', max_rows=8)
    return finish_session(lines, evs, text, seed, features(lines), agn_classes(lines))


# ------------------------------------------------------------------------------------------------
# C17
# ------------------------------------------------------------------------------------------------
SHARED_VOCAB = ['f', 'p', 'la', '1', 'C7', 'x']


def sess_c17(seed, profile='main', shared_vocab=False):
    if shared_vocab:
        # the same cell texts under different spine types (hence different categories)
        saved = dict(gen.OWNPOOL)
        try:
            for k in list(gen.OWNPOOL):
                gen.OWNPOOL[k] = SHARED_VOCAB
            r, lines, types = make_doc(seed, profile, max_rows=12, first_kern=0.3, max_spines=4,
                                       types=['**text', '**dynam', '**harm', '**fing', '**mxhm', '**dyn'])
        finally:
            gen.OWNPOOL.update(saved)
    else:
        r, lines, types = make_doc(seed, profile, max_rows=16)
    evs, doc, text = session.record_import(lines)
    if doc is not None:
        A = lambda inc: {'incall': inc is None, 'inc': list(inc or [])}  # noqa
        for op in ('listing', 'unique', 'encodings', 'uencodings', 'freq'):
            evs.append(session.record_call(doc, {'op': op, 'args': A(None)}))
        for i, c in enumerate(CATS):
            evs.append(session.record_call(doc, {'op': 'listing', 'args': A([c]), '_form': i}))
            if r.random() < 0.25:
                evs.append(session.record_call(doc, {'op': r.choice(['unique', 'freq', 'encodings', 'uencodings']), 'args': A([c]), '_form': i}))
        for _ in range(6):
            inc = r.sample(CATS, r.randint(0, 5))
            evs.append(session.record_call(doc, {'op': r.choice(['listing', 'unique', 'freq', 'uencodings']), 'args': A(inc), '_form': r.randrange(3)}))
        for c in ('LYRICS', 'DYNAMICS', 'HARMONY', 'FINGERING', 'OTHER', 'NOTE_REST', 'SIGNATURES', 'CORE'):
            evs.append(session.record_call(doc, {'op': 'unique', 'args': A([c])}))
            evs.append(session.record_call(doc, {'op': 'uencodings', 'args': A([c]), '_form': 1}))
        evs.append(session.record_call(doc, {'op': 'meta', 'args': {'haskey': False, 'key': []}}))
        for key in ('COM', 'OTL', 'voices', 'CO', 'zz', ''):
            evs.append(session.record_call(doc, {'op': 'meta', 'args': {'haskey': True, 'key': cps(key)}}))
        evs.append(session.record_call(doc, {'op': 'mono', 'args': {}}))
        evs.append(session.record_call(doc, {'op': 'spine_ids', 'args': {}}))
        if seed % 40 == 0:
            long_repetition_probe(seed, evs, 'listing')
    return finish_session(lines, evs, text, seed, features(lines) | ({'shared-vocabulary'} if shared_vocab else set()))


def sess_c17_mono(seed):
    """small documents around the monophony rule: one kern spine with/without notes, chords, only nulls ..."""
    r = random.Random(seed)
    nk = r.choice([1, 1, 1, 2])
    types = ['**kern'] * nk + r.choice([[], [], ['**text'], ['**dynam', '**text'], ['**root']])
    r.shuffle(types)
    lines = [{'ev': 'header', 'cells': [gen.lit('hdr', t) for t in types]}]
    g = gen.DocGen(r)
    kinds = r.choice([['null'], ['null', 'bar'], ['note'], ['rest'], ['chord'], ['note', 'chord'], ['null', 'note'], ['err'], ['sig', 'bar', 'null']])
    for _ in range(r.randint(1, 4)):
        k = r.choice(kinds)
        cells = []
        for t in types:
            if k == 'bar':
                cells.append(gen.mk_bar())
            elif k == 'sig':
                cells.append(gen.lit('clef', '*clefG2') if t == '**kern' else gen.NULLI())
            elif t != '**kern':
                cells.append(gen.NULL() if t != '**root' or k != 'note' else gen.note_cell(gen.mk_note(dur=['4'], p='c')))
            elif k == 'note':
                cells.append(gen.note_cell(g.note()))
            elif k == 'rest':
                cells.append(gen.note_cell(g.rest()))
            elif k == 'chord':
                cells.append(g.chord())
            elif k == 'err':
                cells.append(gen.lit('err', 'U4c'))
            else:
                cells.append(gen.NULL())
        lines.append({'ev': 'row', 'cells': cells})
    lines.append({'ev': 'row', 'cells': [gen.TERM() for _ in types]})
    evs, doc, text = session.record_import(lines)
    if doc is not None:
        evs.append(session.record_call(doc, {'op': 'mono', 'args': {}}))
        evs.append(session.record_call(doc, {'op': 'listing', 'args': {'incall': True, 'inc': []}}))
    return finish_session(lines, evs, text, seed, features(lines) | {'monophony-probe'})


# ------------------------------------------------------------------------------------------------
# C07
# ------------------------------------------------------------------------------------------------
def sess_c07(seed, profile='kern_only', mixed=False, sigs=False, hidden=False):
    over = dict(max_rows=26, hidden_bars=hidden, mid_sigs=False, opening_bar=0.5, final_bar=0.6, max_spines=3)
    if mixed:
        over.update(kern_only=False, first_kern=1.0, nonkern_sigs=0.15 if sigs else 0)
    r, lines, types = make_doc(seed, profile, **over)
    if seed % 7 == 6 and not sigs:
        # a score without any clef, key or time signature (a range export has nothing to restate)
        lines = [e for e in lines if not (e['ev'] == 'row' and any(c['k'] in gen.SIGKINDS for c in e['cells']))]
    evs, doc, text = session.record_import(lines)
    if doc is not None:
        ts = ['**kern'] if mixed else None
        evs.append(session.record_call(doc, {'op': 'mcount', 'args': {}}))
        evs.append(session.record_call(doc, {'op': 'iter', 'args': {}}))
        # the full export is the BASE: a range must yield ITS data lines, unmodified
        evs.append(session.record_call(doc, {'op': 'dumps', 'args': session.dumps_args(types=ts), 'exact': True, 'role': 'base'}))
        base = len(evs)
        M = len(doc.measure_start_tree_stages)
        pairs = [(a, b) for a in range(1, M + 1) for b in range(a, M + 1)]
        if len(pairs) > 60:
            pairs = r.sample(pairs, 60)
        for a, b in pairs:
            evs.append(session.record_call(doc, {'op': 'dumps', 'args': session.dumps_args(types=ts, frm=a, to=b), 'strict': True, 'base': base}))
        for a in range(1, min(M, 6) + 1):                 # open-ended ranges
            evs.append(session.record_call(doc, {'op': 'dumps', 'args': session.dumps_args(types=ts, frm=a), 'strict': True, 'base': base}))
            evs.append(session.record_call(doc, {'op': 'dumps', 'args': session.dumps_args(types=ts, to=a), 'strict': True, 'base': base}))
        for a, b in ((-1, None), (-2, M), (None, M + 1), (1, M + 1), (2, 1), (M, M - 1), (M + 1, M + 2), (0, M + 3)):
            if (a is None or b is None or True):
                evs.append(session.record_call(doc, {'op': 'dumps', 'args': session.dumps_args(types=ts, frm=a, to=b), 'strict': True}))
        # overlapping iterations also yield 1..M each (appended LAST: the listed cases of the fixed corpora are keyed by event position)
        evs.append(session.record_call(doc, {'op': 'iterpairs', 'args': {}}))
        # one Exporter and one ExportOptions(from_measure=1, to_measure=M) for this score, a score with MORE measures and this score again
        reuse_probe(doc, seed, evs, 'dumps.range_same_with_reused_exporter_and_options_on_a_longer_score', profile=profile, need='more_measures',
                    ranged=True, spine_types=ts, **{k_: v_ for k_, v_ in over.items() if k_ != 'max_rows'}, max_rows=34)
        if seed % 5 == 0 and not sigs and not hidden:
            many_measures_probe(seed, evs)
    tags = features(lines)
    if mixed:
        tags.add('mixed-export-kern-only')
    return finish_session(lines, evs, text, seed, tags, gen.range_classes(lines) if sigs else ())       # + doc_classes (hidden_barline)


# ------------------------------------------------------------------------------------------------
# C10 (document level)
# ------------------------------------------------------------------------------------------------
def sess_c10(seed, profile='main', plain_acc=True):
    """akern / aekern exports with clef changes, chords and splits.  plain_acc: accidentals are sharps/flats only."""
    over = dict(max_rows=16, clef_first=1.0, mid_sigs=True)
    if plain_acc:
        over.update(accdisp=False)
    r, lines, types = make_doc(seed, profile, **over)
    if plain_acc:
        for c in gen.all_cells(lines):
            ns = [c['n']] if c['k'] == 'note' else c['ns'] if c['k'] == 'chord' else []
            for n in ns:
                if uncps(n['acc']) == 'n':
                    n['acc'] = cps('#')
            if ns:
                c['t'] = gen.note_text(ns[0]) if c['k'] == 'note' else gen.chord_cell(ns)['t']
    evs, doc, text = session.record_import(lines)
    if doc is not None:
        idx = {}
        # the kern / ekern exports are the BASE: the agnostic export must differ from them only in the pitch letters
        for enc in ('kern', 'ekern', 'akern', 'aekern'):
            c = {'op': 'dumps', 'args': session.dumps_args(enc=enc), 'exact': True}
            if enc in ('kern', 'ekern'):
                c['role'] = 'base'
            else:
                c['base'] = idx['kern' if enc == 'akern' else 'ekern']
            evs.append(session.record_call(doc, c))
            idx[enc] = len(evs)
        evs.append(session.relation(doc, 'agn_vs_kern', idx['akern'], idx['kern'], 'akern', 'kern'))
        evs.append(session.relation(doc, 'plain_vs_ext', idx['akern'], idx['aekern'], 'akern', 'aekern'))
        for _ in range(3):
            o = random_options(r, types)
            o['enc'] = r.choice(['akern', 'aekern'])
            evs.append(session.record_call(doc, {'op': 'dumps', 'args': session.dumps_args(**o), '_form': r.randrange(9), 'base': idx['ekern']}))
        # the tokenizers used directly (class API): the same token object converted under clefs of the caller's choice
        import kernpy as kp
        notes = [(si + 1, pi + 1, n) for si, st in enumerate(doc.tree.stages) for pi, n in enumerate(st)
                 if type(n.token).__name__ == 'NoteRestToken' and n.header_node is not None and n.header_node.token.encoding == '**kern']
        for (si, pi, n) in (notes if len(notes) <= 3 else r.sample(notes, 3)):
            for clef in r.sample(['*clefG2', '*clefF4', '*clefC3', '*clefC1', '*clefF3', '*clefC4'], 3):
                enc = r.choice(['akern', 'aekern'])
                ev = {'ev': 'call', 'op': 'tokenize', 'ptr': [si, pi], 'clef': cps(clef), 'enc': enc, 'args': {}}
                try:
                    tk = kp.TokenizerFactory.create(getattr(kp.Encoding, session.ENC[enc]).value, token_categories=set(kp.TokenCategory),
                                                    last_clef_reference=kp.core.tokens.ClefToken(clef))
                    ev['res'] = {'ok': True, 't': cps(tk.tokenize(n.token))}
                except Exception as ex:  # noqa
                    ev['res'] = {'ok': False, 't': [], 'exc': type(ex).__name__}
                ev['snap'] = session.snapshot(doc)
                evs.append(ev)
    tags = features(lines)
    nclefs = len({tuple(c['t']) for c in gen.all_cells(lines) if c['k'] == 'clef'})
    if nclefs >= 2:
        tags.add('clef-change')
    return finish_session(lines, evs, text, seed, tags, agn_classes(lines))


# ------------------------------------------------------------------------------------------------
# common main
# ------------------------------------------------------------------------------------------------
def doc_main(pid, *, assumptions, rule, mc, populations, nontrivial=None, symptom_of=None, explored=()):
    """mc: list of (module, cfg, label);  populations: list of (label, builder, n_quick, n_thorough, kwargs)."""
    a = parse_args()
    quick = a.tier == 'quick'
    run = Run(pid, a.tier, a.seed, assumptions=assumptions)
    run.rule = rule
    run.note('explored_classes', list(explored))
    for module, cfg, label in mc:
        run.add_tlc(tlc.run_tlc(module, cfg, workers=16, timeout=3000, label=label))
    sess = []
    if a.replay_case:
        sess = docs.replay_sessions(a.replay_case)
    else:
        for k, (label, fn, nq, nt, kw) in enumerate(populations):
            n = nq if quick else nt
            kw = dict(kw)
            fixed = kw.pop('_fixed', False)
            # explored populations are a FIXED corpus (independent of VERIF_SEED; quick is a prefix of thorough): their failing
            # cases are listed one by one in known_findings.json
            seeds = [(777000000 + k * 1000003 + i) if fixed else (a.seed * 1000003 + k * 100000007 + i) for i in range(n)]
            part = docs.build_sessions(fn, seeds, **kw)
            for s in part:
                s['tags'] = list(s.get('tags', [])) + [label]
                if fixed:
                    s['case_id'] = f"{label}:{s['seed']}"
            sess += part
            run.note('population_' + label, n)
        docs.selftest_session(next((s for s in sess if len(s['log']) > 8), sess[0]))
    docs.validate_sessions(run, sess, symptom_of=symptom_of, relevant=docs.relevant_for(run.pid))
    run.evaluations = sum(sum(1 for e in s['log'] if e['ev'] == 'call') for s in sess) + len(sess)
    for s in sess:
        if nontrivial is None or nontrivial(s):
            run.nontrivial.add(s['text'] + '|' + str(len(s['log'])))
    for s in sess[:: max(1, len(sess) // 4)][:4]:
        calls = [docs.describe_event(e)[:160] for e in s['log'] if e['ev'] == 'call'][:3]
        run.sample({'text': s['text'][:500], 'tags': s.get('tags'), 'first_calls': calls, 'events': len(s['log'])})
    run.exhaustive = False
    return run.finish()
