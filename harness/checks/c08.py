"""C08 - a measure excerpt is a self-contained, equivalent score.

model:    spec/SpinePaths.tla used as the RECOGNISER of well-formed Humdrum: an excerpt is well-formed iff its lines are a behaviour
          of the row machine (header line first, cell count per line consistent with the spine operators) ending in status
          "closed" (every spine terminated); Governing = the sig pointers of the excerpt's state
MC:       MC_SpinePaths (LivePathsMatch, GoverningSigOK, ClosedMeansNoLive, ParentOnSamePath): the recogniser itself;
          MC_Excerpt: every core score of a bounded instance x every measure range: the REFERENCE excerpt (header line for the live
          spines, one line per signature class in force, body, terminator line) is fed to the SAME Header/Row actions: NeverStuck,
          EndsClosed, SameGoverning - the requirement is satisfiable and this is what an excerpt has to look like
binding:  every measure-range export of generated **kern scores is lexed by an independent lexer (prefixes ** *^ *v *- *clef *k[ *M
          *met = ! .) and fed, line by line, to the row machine by TLC (Trace_Session x-events); TLC also compares the governing
          clef / key / time signature of every note of the excerpt with what the generator's own column tracker computed for the
          same note in the full score; loads(excerpt) must report no error.
          Populations: core (signatures before the first measure, every split re-joined before the next barline) - strict;
          explored (mid-score signatures, excerpts starting inside a split, non-kern spines) - tracked as findings.
"""
from __future__ import annotations

import random

from ..common import Run, main_wrapper, parse_args, MachineryError, cps, uncps
from .. import tlc, session, gen
from . import docs, docprops as dp


def lex_cell(t):
    if t.startswith('**'):
        return 'hdr'
    if t == '*^':
        return 'split'
    if t == '*v':
        return 'join'
    if t == '*-':
        return 'term'
    if t == '*':
        return 'nulli'
    if t.startswith('*clef'):
        return 'clef'
    if t.startswith('*k[') or t == '*kcancel':
        return 'keysig'
    if t.startswith('*met(') or t.startswith('*M('):
        return 'meter'
    if t.startswith('*M') and len(t) > 2 and t[2].isdigit():
        return 'timesig'
    if t.startswith('*'):
        return 'tandem'
    if t.startswith('!'):
        return 'fcom'
    if t.startswith('='):
        return 'bar'
    if t == '.':
        return 'null'
    return 'chord' if ' ' in t else 'note'


def excerpt_log(doc, a, b, gov, kw):
    import kernpy as kp
    try:
        out = kp.dumps(doc, from_measure=a, to_measure=b, **kw)
    except Exception as ex:  # noqa
        return [{'ev': 'xbad', 'what': 'excerpt.export_raised', 'exc': type(ex).__name__ + ': ' + str(ex)[:80]}], None
    rows = [ln.split('\t') for ln in out.split('\n') if ln != '']
    if not rows or not all(c.startswith('**') for c in rows[0]):
        return [{'ev': 'xbad', 'what': 'excerpt.header_line_first', 'out': out[:200]}], out
    log = [{'ev': 'xheader', 'cells': [{'k': 'hdr', 't': cps(c)} for c in rows[0]]}]
    for row in rows[1:]:
        if all(c.startswith('!!') for c in row) and len(row) == 1:
            continue
        log.append({'ev': 'xrow', 'cells': [{'k': lex_cell(c), 't': cps(c)} for c in row]})
    try:
        d2, e2 = kp.loads(out)
        ok, nerr = True, len(e2)
    except Exception:  # noqa
        ok, nerr = False, -1
    log.append({'ev': 'xend', 'reimport_ok': ok, 'reimport_nerr': nerr, 'gov': gov, 'snap': ''})
    return log, out


def sessions_of(seed, population='core'):
    """returns a LIST of sessions: one per measure range of the generated score."""
    r = random.Random(seed)
    kw = {}
    if population == 'core':
        lines, types = gen.core_score(r)
    elif population == 'late_signatures':
        lines, types = gen.late_signature_score(r)
    elif population == 'explored':
        g = gen.DocGen(r, kern_only=True, chords='core', max_rows=20, mid_sigs=True, max_spines=3, mid_comments=False, hidden_bars=False)
        lines, types = g.document()
    else:                                                  # non-kern spines next to the kern ones, exported with spine_types=['**kern']
        g = gen.DocGen(r, chords='core', max_rows=16, mid_sigs=False, max_spines=3, first_kern=1.0, mid_comments=False, hidden_bars=False, nonkern_sigs=0)
        lines, types = g.document()
        kw = {'spine_types': ['**kern']}
    import kernpy as kp
    text = session.render(lines)
    doc, errs = kp.loads(text)
    # which lines belong to measure k is read from the IMPLEMENTATION's measure index (whether that index is right is C07's
    # statement); C08 asks what the excerpt of those lines looks like
    nonblank = [i for i, e in enumerate(lines) if e['ev'] != 'blank']
    starts = [nonblank[st - 1] for st in doc.measure_start_tree_stages if 0 < st <= len(nonblank)]
    M = len(starts)
    tracker = {id(e): paths for e, paths in gen.path_tracker(lines)}
    doc_classes = gen.range_classes(lines) | gen.doc_classes(lines)
    if population == 'late_signatures':
        # the FIRST signatures of every spine (the same kinds in all of them) stand after a later barline: no signature changes, strict
        doc_classes.discard('midscore_sig')
    if population == 'nonkern':
        doc_classes.add('nonkern_in_document')
    nsp = len(types)
    rowidx = [i for i, e in enumerate(lines) if e['ev'] == 'row']
    last_row = rowidx[-1]
    ranges = [(a, b) for a in range(1, M + 1) for b in range(a, M + 1)]
    if len(ranges) > 16:
        ranges = r.sample(ranges, 16)
    out = []
    for (a, b) in ranges:
        first = starts[a - 1]
        last = starts[b] if b < M else last_row
        gov = []
        for i in range(first, last + 1):
            e = lines[i]
            if e['ev'] != 'row':
                continue
            for c, p in zip(e['cells'], tracker[id(e)]):
                if c['k'] == 'note' and types[p['spine']] == '**kern':
                    gov.append([list(p['sigs'].get('clef', ())), list(p['sigs'].get('keysig', ())), list(p['sigs'].get('timesig', ()))])
        classes = set(doc_classes)
        e0 = lines[first]
        spines_here = [p['spine'] for p in tracker[id(e0)]]
        open_split = any(p['depth'] > 0 for p in tracker[id(e0)])          # a split not (yet) undone by a join, even if a branch ended
        if open_split or len(spines_here) != len(set(spines_here)) or ({c['k'] for c in e0['cells']} & {'split', 'join', 'term'}):
            classes.add('start_inside_split')
        log, text_out = excerpt_log(doc, a, b, gov, kw)
        sess = {'log': log, 'text': text, 'classes': sorted(classes), 'seed': seed, 'tags': [population, f'range {a}-{b}'],
                'excerpt': text_out, 'range': [a, b]}
        if population not in ('core', 'late_signatures'):
            sess['case_id'] = f'{population}:{seed}:{a}-{b}'
        out.append(sess)
    if population == 'core':
        # one Exporter and one ExportOptions(from_measure=2, to_measure=M) for this score, a WIDER core score and this score again
        probe = []
        dp.reuse_probe(doc, seed, probe, 'excerpt.same_with_reused_exporter_and_options_on_a_wider_score', profile='kern_only', need='wider',
                       ranged=True, frm=2, snap='', max_rows=10, mid_sigs=False, mid_comments=False, max_spines=4, min_rows=4)
        if probe:
            out.append({'log': probe, 'text': text, 'classes': [], 'seed': seed, 'tags': [population, 'reused-options'], 'excerpt': None, 'range': [2, M]})
    return {'multi': out, 'log': [], 'text': text, 'classes': [], 'seed': seed, 'tags': [population]}


def main():
    a = parse_args()
    quick = a.tier == 'quick'
    run = Run('C08', a.tier, a.seed, assumptions=[
        'the excerpt text is classified by an independent lexer of cell prefixes; notes are matched by row-major order',
        'core = signatures before the first measure, every split re-joined before the next barline (property text)',
        'global comment lines inside an excerpt are skipped by the recogniser (they are legal anywhere)'])
    run.rule = ('seeded scores x every measure range (<= 16 per score); one recogniser run per excerpt; non-trivial = distinct excerpts that '
                'do not start at measure 1 or whose score has a split')
    run.note('explored_classes', ['midscore_sig', 'unequal_sig_kinds', 'start_inside_split', 'nonkern_in_document', 'nested_split'])
    run.add_tlc(tlc.run_tlc('MC_SpinePaths', 'MC_SpinePaths_c08.cfg', workers=16, timeout=3000, label='MC_SpinePaths(recogniser invariants)'))
    # the requirement is satisfiable: the REFERENCE excerpt of every core score of the bounded instance is recognised by the same machine
    run.add_tlc(tlc.run_tlc('MC_Excerpt', 'MC_Excerpt_q.cfg' if quick else 'MC_Excerpt_t.cfg', workers=16, timeout=5000,
                            label='MC_Excerpt(NeverStuck, EndsClosed, SameGoverning)'))
    # what the code does, in the model: the TRANSCRIBED algorithm of Exporter.export_string (ExcerptImpl.tla; bound to the code by the clause
    # impl.range_export_as_transcribed of every recorded range export in C07's sessions) applied to every core score of the bounded instance
    # whose signature lines have one kind per line: it never raises, prints the reference excerpt line for line, and what it prints is
    # recognised, closed and governed like the full score
    run.add_tlc(tlc.run_tlc('MC_Excerpt', 'MC_Excerpt_impl.cfg' if quick else 'MC_Excerpt_impl_t.cfg', workers=16, timeout=5000,
                            label='MC_Excerpt(the implementation\'s algorithm: ImplNeverRaises, ImplIsReference, NeverStuck, EndsClosed, SameGoverning)'))
    # ... and outside that core TLC finds the recorded finding D15 by itself (signature lines of different kinds in the spines):
    # an informational run, expected to END with a counterexample while the finding is open
    ux = tlc.run_tlc('MC_Excerpt', 'MC_Excerpt_unequal.cfg', workers=8, timeout=1500, allow_error=True,
                     label='MC_Excerpt(exploration: unequal signature kinds)')
    run.note('model_counterexample_for_unequal_signature_kinds (finding D15)', 'found' if 'is violated' in ux.error else 'not found')
    pops = [('core', 140 if quick else 2500), ('explored', 60 if quick else 400), ('nonkern', 40 if quick else 250), ('late_signatures', 40 if quick else 500)]
    sess = []
    if a.replay_case:
        sess = docs.replay_sessions(a.replay_case)
    else:
        for k, (pop, n) in enumerate(pops):
            # the explored populations are a FIXED corpus (quick = a prefix of thorough): their failing excerpts are listed one by one
            seeds = [a.seed * 1000003 + k * 100000007 + i for i in range(n)] if pop in ('core', 'late_signatures') else [808000000 + k * 1000003 + i for i in range(n)]
            for m in docs.build_sessions(sessions_of, seeds, population=pop):
                sess += m['multi']
            run.note('scores_' + pop, n)
    docs.validate_sessions(run, sess, relevant=docs.relevant_for(run.pid))
    for s in sess:
        if s['range'][0] > 1 or 'split' in s['text']:
            run.nontrivial.add((s['text'], tuple(s['range'])))
    run.evaluations = len(sess)
    s = next((s for s in sess if s['range'][0] > 1 and s['excerpt']), sess[0])
    run.sample({'score': s['text'][:400], 'range': s['range'], 'excerpt': (s['excerpt'] or '')[:400]})
    run.exhaustive = False
    return run.finish()


if __name__ == '__main__':
    main_wrapper(main)
