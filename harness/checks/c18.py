"""C18 - every spine type imports every token without loss.

model:    spec/Dispatch.tla (category of a cell = f(spine type, cell class); SharedClasses), spec/ImporterHistory.tla (Outcome)
MC:       MC_ImporterHistory over all eight header kinds: NonKernNeverFails, OutcomeIndependent; MC_SpinePaths with
          BarlinesSameUnderEveryType (the measure index is invariant under re-typing the non-kern spines)
binding:  (a) a corpus with several texts per grammar alternative (classes assigned from the grammar), free text per spine
          type and seeded arbitrary strings is fed to ONE importer object per header (**text **dynam **dyn **harm **mxhm **fing
          and an unknown header), each answer with the real **kern importer's answer for the same text next to it; TLC validates
          never-raises, the category rule, verbatim text, shared-as-in-kern (Trace_Importer);
          (b) whole documents whose non-kern columns are presented under every one of the seven spine types: tree, token
          categories and measure index after every line are validated by TLC (Trace_Session).
"""
from __future__ import annotations

import random

from ..common import Run, main_wrapper, parse_args, MachineryError, cps, uncps
from .. import tlc, session, gen
from . import docs, docprops as dp, imphist

TARGETS = imphist.NONKERN


def sess_retyped(seed, target=0):
    """the same rows, the non-kern columns presented under TARGETS[target]."""
    r, lines, types = dp.make_doc(seed, 'main', max_rows=14, first_kern=0.7, types=['**text', '**dynam', '**harm', '**fing'])
    t = TARGETS[target % len(TARGETS)]
    for e in lines:
        if e['ev'] == 'header':
            for c in e['cells']:
                if uncps(c['t']) not in gen.KERNLIKE:
                    c['t'] = cps(t)
    evs, doc, text = session.record_import(lines)
    if doc is not None:
        # barlines are detected identically under every spine type: the same rows under each of the other types give the same
        # measure index and the same shared tokens (compared between REAL imports, whatever the measure rule is)
        import copy
        import kernpy as kp
        same_index, same_shared = True, True
        shared = lambda d: [(n.token.category.name, n.token.encoding) for st in d.tree.stages[1:] for n in st  # noqa
                            if n.token.category.name in ('BARLINES', 'EMPTY', 'CLEF', 'KEY_SIGNATURE', 'TIME_SIGNATURE', 'METER_SYMBOL', 'STRUCTURAL', 'BOUNDING_BOXES')
                            and not n.token.encoding.startswith('**')]
        for t2 in TARGETS:
            if t2 == t:
                continue
            l2 = copy.deepcopy(lines)
            for e in l2:
                if e['ev'] == 'header':
                    for c in e['cells']:
                        if uncps(c['t']) not in gen.KERNLIKE:
                            c['t'] = cps(t2)
            try:
                d2, _ = kp.loads(session.render(l2))
                same_index = same_index and list(d2.measure_start_tree_stages) == list(doc.measure_start_tree_stages)
                same_shared = same_shared and shared(d2) == shared(doc)
            except Exception:  # noqa
                same_index = same_shared = False
        # ... and exactly as in a **kern spine: the rows that hold a barline open a measure when the same rows are presented under
        # **kern (only those rows are compared: which row opens the FIRST measure depends on what counts as a note, and free text
        # read as **kern is something else - a note, a rest or a malformed cell)
        bar_rows = lambda d: [s for s in d.measure_start_tree_stages  # noqa
                              if any(n.token is not None and n.token.category.name == 'BARLINES' for n in d.tree.stages[s])]
        lk = copy.deepcopy(lines)
        for e in lk:
            if e['ev'] == 'header':
                for c in e['cells']:
                    c['t'] = cps('**kern')
        try:
            dk, _ = kp.loads(session.render(lk))
            as_kern = bar_rows(dk) == bar_rows(doc) and \
                [s for s, st in enumerate(dk.tree.stages) if any(n.token is not None and n.token.category.name == 'BARLINES' for n in st)] == \
                [s for s, st in enumerate(doc.tree.stages) if any(n.token is not None and n.token.category.name == 'BARLINES' for n in st)]
        except Exception:  # noqa
            as_kern = False
        snap = evs[-1]['snap']
        evs.append({'ev': 'call', 'op': 'flag', 'name': 'retype.barline_rows_open_measures_as_under_kern', 'value': as_kern, 'args': {}, 'snap': snap})
        evs.append({'ev': 'call', 'op': 'flag', 'name': 'retype.same_measure_index_under_every_type', 'value': same_index, 'args': {}, 'snap': snap})
        evs.append({'ev': 'call', 'op': 'flag', 'name': 'retype.same_shared_tokens_under_every_type', 'value': same_shared, 'args': {}, 'snap': snap})

    return dp.finish_session(lines, evs, text, seed, dp.features(lines) | {'as ' + t})


def sess_same_text_different_types(seed):
    """one document in which the same cell texts occur under different spine types (hence different categories)."""
    r = random.Random(seed)
    saved = dict(gen.OWNPOOL)
    try:
        for k in list(gen.OWNPOOL):
            gen.OWNPOOL[k] = dp.SHARED_VOCAB + ['4c', '*Ipiano']
        g = gen.DocGen(r, max_rows=12, first_kern=0.4, max_spines=4, types=TARGETS[:6] + ['**kern'])
        lines, types = g.document()
    finally:
        gen.OWNPOOL.update(saved)
    if r.random() < 0.5:
        for e in lines:                       # an unknown spine type among them
            if e['ev'] == 'header' and uncps(e['cells'][-1]['t']) != '**kern':
                e['cells'][-1]['t'] = cps(imphist.UNKNOWN)
    evs, doc, text = session.record_import(lines)
    if doc is not None:
        evs.append(session.record_call(doc, {'op': 'listing', 'args': {'incall': True, 'inc': []}}))
    return dp.finish_session(lines, evs, text, seed, dp.features(lines) | {'same-text-different-types'})


def main():
    a = parse_args()
    quick = a.tier == 'quick'
    run = Run('C18', a.tier, a.seed, assumptions=[
        'I5: free text of an **mxhm spine carries HARMONY (the enum also offers MHXM; not demanded)',
        'arbitrary strings count as free text only when their first character cannot start a shared token (= * .); strings that do are '
        'the explored class shared_prefix_plus_suffix (D7)', 'cell texts are non-empty'])
    run.rule = ('corpus (>= 3 texts per grammar alternative + free text + %d arbitrary strings) x 7 headers on one importer object each; '
                'documents x 7 re-typings; non-trivial = distinct (header, text) pairs whose class is shared or kern-only, and documents '
                'with a barline row') % (150 if quick else 3000)
    run.note('explored_classes', ['shared_prefix_plus_suffix'])
    run.add_tlc(tlc.run_tlc('MC_ImporterHistory', 'MC_ImporterHistory_c18.cfg', workers=8, timeout=1800, tag='NOVP'))
    run.add_tlc(tlc.run_tlc('MC_SpinePaths', 'MC_SpinePaths_c18.cfg', workers=16, timeout=3000, label='MC_SpinePaths(BarlinesSameUnderEveryType)'))
    if a.replay_case:
        case = a.replay_case['case']
        if 'cells' in case:
            imphist.validate(run, [imphist.replay_history(case['header'], case['cells'], with_kern_reference=True, fresh_reference=True)], [{}])
        else:
            docs.validate_sessions(run, docs.replay_sessions(a.replay_case), relevant=docs.relevant_for(run.pid))
        return run.finish()
    rnd = random.Random(a.seed)
    cells = imphist.corpus(rnd, 150 if quick else 3000)
    logs, metas = [], []
    for ht in TARGETS:
        order = list(cells) + imphist.explored_corpus()
        rnd.shuffle(order)
        for k in range(0, len(order), 120):
            logs.append(imphist.replay_history(ht, order[k:k + 120], with_kern_reference=True, fresh_reference=True))
            metas.append({'header': ht})
    # sung text in its order: syllables the kern grammar reads as a rest plus a signifier ('ri-', 'rit.', 'rim', 'rs') followed by
    # syllables it reads as a single note or rest ('a', 'e', 'ex-', 'cel-', 'la'), on ONE importer object per spine type
    sung = ['Glo-', 'ri-', 'a', 'in', 'ex-', 'cel-', 'sis', 'De-', 'o', 'rit.', 'e', 'rim', 'la', 'rs', '4c', 'r', 'a', 'ra-', 'ge', 'rL', 'c', '8r_', 'f', 'ri', 'g#', 'rT', 'b-']
    for ht in TARGETS:
        logs.append(imphist.replay_history(ht, [gen.lit('text', t) for t in sung], with_kern_reference=True, fresh_reference=True))
        metas.append({'header': ht})
    imphist.validate(run, logs, metas)
    for log in logs:
        for e in log[1:]:
            if e['cell']['k'] != 'text' or e.get('kern', {}).get('ok'):
                run.nontrivial.add((tuple(log[0]['ht']), tuple(e['cell']['t'])))
    run.note('corpus_size', len(cells))
    n = 30 if quick else 400
    jobs = [(a.seed * 1000003 + i, t) for i in range(n) for t in range(len(TARGETS))]
    sess = []
    for t in range(len(TARGETS)):
        sess += docs.build_sessions(sess_retyped, [a.seed * 1000003 + i for i in range(n)], target=t)
    sess += docs.build_sessions(sess_same_text_different_types, [a.seed * 1000003 + 77000000 + i for i in range(120 if quick else 2000)])
    docs.validate_sessions(run, sess, relevant=docs.relevant_for(run.pid))
    for s in sess:
        if 'bar' in s['tags']:
            run.nontrivial.add(s['text'])
    run.evaluations = sum(len(l) - 1 for l in logs) + len(sess)
    run.sample({'header': '**dynam', 'calls': [imphist.describe(e) for e in logs[2][1:5]]})
    run.sample({'text': sess[0]['text'][:400], 'tags': sess[0]['tags']})
    run.exhaustive = False
    return run.finish()


if __name__ == '__main__':
    main_wrapper(main)
