"""C02 - import builds a spine tree that mirrors the text cell for cell.

model:    spec/SpinePaths.tla (the importer's row machine) - this property *is* the module
MC:       MC_SpinePaths: every interleaving of header / data / barline / interpretation / comment / spine-operator /
          surplus lines up to MaxLines lines and MaxLive live paths; invariants StagePerLine, NodePerCell, ParentOnSamePath,
          HeaderIdentity, CommentChain, LivePathsMatch, MeasureIndexOK, GoverningSigOK, SurplusRejects (+ document laws)
binding:  (a) spec -> code: every complete behaviour TLC enumerates is fed to kernpy.loads; (b) code -> spec: random large
          layouts (<= 4 spines, nested splits, several operators per line, literal-text stress, surplus lines);
          in both cases the recorded session (tree observed after every line) is validated by TLC (Trace_Session).
"""
from __future__ import annotations

import random

from ..common import Run, main_wrapper, parse_args, MachineryError, cps
from .. import tlc, session, gen
from . import docs

WEIRD = ['"', '""', '"a', 'a"', '"a b"', 'a,b', ',', ' x', 'x ', 'a  b', 'ñ', 'é"è', '日本語', 'a@b', 'x·y', "'", "it's", '"a\'b', 'a;b', '\\', 'a\\"b',
         '"" ""', 'x,"y",z', '«q»', ' ', 'a b']
# characters str.splitlines() treats as line ends but Humdrum (and the file reader) do not
WEIRD += ['a\x85b', 'c\u2028d', 'e\x0cf', '\x0b', 'g\x1ch', 'i\u2029', '\x1d\x1e']

CALLS = [{'op': 'spine_ids', 'args': {}}, {'op': 'spine_types', 'args': {'alltypes': True, 'types': []}}]


def from_behaviour(idx, beh=None):
    """spec -> code: one TLC-enumerated behaviour (its `fed` history) replayed into the real importer."""
    lines = beh['fed']
    evs, doc, text = session.record_import(lines)
    calls = list(CALLS) if not beh.get('lean') else []
    if not any(e['ev'] == 'surplus' for e in lines) and not beh.get('lean'):
        calls.append({'op': 'dumps', 'args': session.dumps_args(), 'exact': True})
    for c in calls if doc is not None else []:
        evs.append(session.record_call(doc, c))
    return {'log': evs, 'text': session.render(lines), 'classes': [], 'seed': idx, 'tags': ['tlc-behaviour'],
            'replay': {'fn': 'harness.checks.c02:from_behaviour', 'seed': idx, 'kw': {'beh': beh}}}


_BEHS = []      # set before the pool forks


def _beh_worker(seed):
    return from_behaviour(seed, _BEHS[seed])


def random_layout(seed, tier='quick'):
    r = random.Random(seed)
    g = gen.DocGen(r, max_rows=r.choice([10, 20, 34]), max_paths=7, chords='core', blank_lines=r.random() < 0.3,
                   mid_comments=True)
    # literal-text stress: lyrics and comments with quotes, commas, spaces, separators, non-ASCII
    pool = list(gen.LYR) + WEIRD
    saved = dict(gen.OWNPOOL)
    try:
        for k in list(gen.OWNPOOL):
            gen.OWNPOOL[k] = pool
        lines, types = g.document()
    finally:
        gen.OWNPOOL.update(saved)
    for e in lines:
        if e['ev'] == 'row' and all(c['k'] == 'fcom' for c in e['cells']) and r.random() < 0.5:
            e['cells'] = [gen.lit('fcom', '!' + r.choice(WEIRD)) for _ in e['cells']]
        if e['ev'] == 'global' and r.random() < 0.4:
            e['cell'] = gen.lit('gcom', ('!!' + r.choice(WEIRD)).strip())
    tags = []
    if r.random() < 0.3:
        # a line with surplus cells somewhere in the body: must be rejected with an exception
        rows = [i for i, e in enumerate(lines) if e['ev'] == 'row']
        if len(rows) > 1:
            k = r.choice(rows[:-1])
            extra = r.choice([1, 1, 2])
            src = lines[k]['cells']
            # the surplus line is of the same kind as the line it replaces (data, local comment, barline, interpretation,
            # spine operators): its own cells plus `extra` more of the kind of its last cell
            import copy
            last = src[-1]
            filler = gen.NULL() if last['k'] in ('note', 'chord', 'text', 'err', 'null') else \
                gen.NULLI() if last['k'] in ('split', 'join', 'term', 'nulli', 'clef', 'keysig', 'timesig', 'meter', 'staff', 'bbox', 'octx', 'tandem', 'visual') else copy.deepcopy(last)
            if last['k'] in ('nulli', 'clef', 'keysig', 'timesig', 'meter', 'staff', 'bbox', 'octx', 'tandem', 'visual', 'note', 'null') and r.random() < 0.25:
                filler = gen.lit('hdr', r.choice(['**text', '**kern', '**dynam']))      # the surplus cell is an exclusive interpretation
            if r.random() < 0.2:
                filler = gen.lit('null', '')             # the surplus cell is EMPTY: the line ends in a tab
            cells = copy.deepcopy(src) + [copy.deepcopy(filler) for _ in range(extra)]
            lines = lines[:k] + [{'ev': 'surplus', 'cells': cells}]
            tags.append('surplus')
    evs, doc, text = session.record_import(lines)
    for c in CALLS if doc is not None else []:
        evs.append(session.record_call(doc, c))
    nsplit = sum(1 for c in gen.all_cells(lines) if c['k'] == 'split')
    njoin = sum(1 for e in lines if e['ev'] == 'row' and any(c['k'] == 'join' for c in e['cells']))
    multi = sum(1 for e in lines if e['ev'] == 'row' and len({c['k'] for c in e['cells']} & {'split', 'join', 'term'}) > 1)
    if nsplit:
        tags.append('split')
    if njoin:
        tags.append('join')
    if multi:
        tags.append('mixed-ops-line')
    if any(ch in text for ch in '",'):
        tags.append('quote/comma')
    return {'log': evs, 'text': session.render(lines), 'classes': [], 'seed': seed, 'tags': tags}


def main():
    a = parse_args()
    quick = a.tier == 'quick'
    run = Run('C02', a.tier, a.seed, assumptions=[
        'global comments are generated stripped and without tabs (kernpy strips them and keeps only the first cell of a "!!" line)',
        'rectangular input: every line has as many cells as live paths, except the deliberately generated surplus lines'])
    run.rule = ('(a) every complete behaviour (all spines terminated, or a surplus line) of MC_SpinePaths is replayed into kernpy.loads; '
                '(b) seeded random layouts; each session = the tree observed after every line + spine ids/types (+ exact default '
                'export for (a)); non-trivial = distinct sessions whose layout contains a split, a join or a surplus line')
    if a.replay_case:
        run.add_tlc(tlc.run_tlc('MC_SpinePaths', 'MC_SpinePaths_q5.cfg', workers=16, timeout=1200, tag='NOVP'))
        docs.validate_sessions(run, docs.replay_sessions(a.replay_case), relevant=docs.relevant_for(run.pid))
        return run.finish()
    import concurrent.futures as cf
    with cf.ThreadPoolExecutor(2) as ex:
        f1 = ex.submit(tlc.run_tlc, 'MC_SpinePaths', 'MC_SpinePaths_q5.cfg', workers=8, timeout=3000,
                       label='MC_SpinePaths(full alphabet, 5 lines, behaviours emitted)')
        f2 = ex.submit(tlc.run_tlc, 'MC_SpinePaths', 'MC_SpinePaths_lean7.cfg' if quick else 'MC_SpinePaths_lean.cfg', workers=8, timeout=5000,
                       label='MC_SpinePaths(lean: deep operator layouts)')
        mc, mc2 = f1.result(), f2.result()
    run.add_tlc(mc)
    run.add_tlc(mc2)
    if not quick:
        # one line deeper with the full alphabet: invariants only (2.8 M states); its behaviours are not replayed
        run.add_tlc(tlc.run_tlc('MC_SpinePaths', 'MC_SpinePaths_t.cfg', workers=16, timeout=5000, label='MC_SpinePaths(full alphabet, 6 lines, invariants only)', tag='NOVP'))
    lean = mc2.vp
    behs = mc.vp
    if not behs:
        raise MachineryError('MC_SpinePaths emitted no behaviour')
    rnd = random.Random(a.seed)
    rejected = [b for b in behs if b['fed'][-1]['ev'] == 'surplus']
    closed = [b for b in behs if b['fed'][-1]['ev'] != 'surplus']
    take_closed = closed if len(closed) <= (9000 if quick else 60000) else rnd.sample(closed, 9000 if quick else 60000)
    take_rej = rejected if len(rejected) <= (1500 if quick else 8000) else rnd.sample(rejected, 1500 if quick else 8000)
    take_lean = lean if len(lean) <= (25000 if quick else 40000) else rnd.sample(lean, 40000)
    for b in take_lean:
        b['lean'] = True
    chosen = take_closed + take_rej + take_lean
    run.note('tlc_behaviours_emitted', len(behs) + len(lean))
    run.note('tlc_behaviours_replayed', len(chosen))
    global _BEHS
    _BEHS = chosen
    sess = docs.build_sessions(_beh_worker, range(len(chosen)))
    nrand = 400 if quick else 6000
    sess += docs.build_sessions(random_layout, [a.seed * 100003 + i for i in range(nrand)], tier=a.tier)
    docs.selftest_session(next(s for s in sess if 'split' in (s.get('tags') or []) or len(s['log']) > 6))
    docs.validate_sessions(run, sess, relevant=docs.relevant_for(run.pid))
    run.evaluations = len(sess)
    for s in sess:
        ops = {c['k'] for e in s['log'] if e['ev'] in ('row', 'surplus') for c in e['cells']} & {'split', 'join'}
        if ops or any(e['ev'] == 'surplus' for e in s['log']):
            run.nontrivial.add(s['text'])
    run.note('sessions_with_surplus_line', sum(1 for s in sess if any(e['ev'] == 'surplus' for e in s['log'])))
    run.note('random_sessions', nrand)
    for s in (sess[0], sess[len(chosen) // 2], sess[-1], sess[-2]):
        run.sample({'text': s['text'], 'tags': s.get('tags'), 'events': len(s['log'])})
    run.exhaustive = False
    return run.finish()


if __name__ == '__main__':
    main_wrapper(main)
