"""C07 - measure ranges partition the score.

model:    spec/SpinePaths.tla (mstarts, maintained; MeasureIndexOK recomputes it), spec/Export.tla (ValidRange, RangeBody)
MC:       MC_SpinePaths with PartitionLaw + InvMeasures: in every closed kern-only state the single-measure bodies
          concatenate to the data lines of the full export exactly once and in order, ranges glue, bad ranges are invalid
binding:  random **kern-only documents and mixed documents exported with spine_types=['**kern'] (with/without opening
          barline, pickup, final barline): measures_count, iteration, every pair a <= b (<= 60 per document), open-ended
          ranges and out-of-range pairs; the body lines (data lines + barlines) of every real export are validated by TLC
          against RangeBody, rejections against ValidRange.
"""
from ..common import main_wrapper
from . import docprops as dp


def main():
    return dp.doc_main(
        'C07',
        assumptions=['I3: a measure starts at the first CORE-category row (before any barline) and at every barline row',
                     'invisible barlines are generated in a population of their own (their export is finding D18)', 'only body lines (data + barlines) are compared: the reconstructed '
                     'preamble of an excerpt belongs to C08'],
        rule='seeded random kern-only and mixed documents x every measure range; non-trivial = distinct documents with >= 3 measures',
        mc=[('MC_SpinePaths', 'MC_SpinePaths_c07.cfg', 'MC_SpinePaths(PartitionLaw)')],
        populations=[('kern_only', dp.sess_c07, 90, 1500, {}),
                     ('mixed', dp.sess_c07, 40, 600, {'mixed': True, 'profile': 'main'}),
                     ('mixed_sigs', dp.sess_c07, 40, 300, {'mixed': True, 'profile': 'main', 'sigs': True, '_fixed': True}),
                     # invisible barlines open measures like any barline (strict: index, count, iteration, rejections); what is
                     # exported for them is the recorded finding D18
                     ('invisible_barlines', dp.sess_c07, 40, 400, {'hidden': True})],
        explored=['unequal_sig_kinds', 'hidden_barline'],
        nontrivial=lambda s: sum(1 for e in s['log'] if e['ev'] == 'call' and e['op'] == 'dumps') > 12)


if __name__ == '__main__':
    main_wrapper(main)
