"""Value objects beyond the listed properties (run by bin/extras): StoreCache, BoundingBox, DurationClassical, PitchRest against
spec/Values.tla.  spec -> code: TLC enumerates every short history of calls per part (MC_Values_{cache,box,dur}.cfg, laws checked on
the state graph) and simulates long mixed histories (MC_Values_sim.cfg); each history is replayed on REAL objects.
code -> spec: what every call returned and the projection of all live objects after it are validated by TLC (Trace_Values)."""
from __future__ import annotations

import itertools
import random

from ..common import cps, MachineryError
from .. import tlc


def replay(hist):
    """Runs one history on real objects; returns the event log for Trace_Values."""
    from kernpy.util import StoreCache
    from kernpy.core.tokens import BoundingBox, DurationClassical
    cache = StoreCache()
    calls = [0]

    def callback(k):
        calls[0] += 1
        if k == 4:
            raise KeyError('no such thing')
        return [k, calls[0]]
    boxes, durs = [], []
    log = []

    def obs():
        mem = [0, 0, 0, 0]
        for k, v in cache.memory.items():
            if isinstance(k, int) and 1 <= k <= 4:
                mem[k - 1] = v[1] if isinstance(v, list) and len(v) == 2 and v[0] == k else -1
            else:
                mem[0] = -2
        return {'mem': mem, 'ncalls': calls[0], 'boxes': [[b.from_x, b.from_y, b.to_x, b.to_y] for b in boxes], 'durs': [d.duration for d in durs]}
    for h in hist:
        op, a = h['op'], list(h['args'])
        ok, v = True, []
        try:
            if op == 'req':
                v = list(cache.request(callback, a[0]))
            elif op == 'newbox':
                b = BoundingBox(*a)
                boxes.append(b)
                v = [int(x) for x in b.xywh().split(',')]
            elif op == 'extend':
                r = boxes[a[0] - 1].extend(boxes[a[1] - 1])
                if r is not None:
                    raise MachineryError('extend returned a value')
                v = [int(x) for x in boxes[a[0] - 1].xywh().split(',')]
            elif op == 'boxeq':
                v = [int(boxes[a[0] - 1] == boxes[a[1] - 1]), int(boxes[a[0] - 1] != boxes[a[1] - 1])]
            elif op == 'newdur':
                d = DurationClassical(a[0])
                durs.append(d)
                v = [int(str(d))]
            elif op == 'modify':
                d = durs[a[0] - 1].modify(a[1])
                durs.append(d)
                v = [d.duration]
            elif op == 'cmpdur':
                x, y = durs[a[0] - 1], durs[a[1] - 1]
                v = [int(x == y), int(x != y), int(x > y), int(x < y), int(x >= y), int(x <= y)]
            else:
                raise MachineryError('unknown op ' + op)
        except MachineryError:
            raise
        except Exception:  # noqa
            ok, v = False, []
        log.append({'op': op, 'args': a, 'ok': ok, 'v': v, 'obs': obs()})
    return log


LETTERS = 'cgaCAr'


def pitchrest_records(r):
    from kernpy.core.tokens import PitchRest
    texts = [''.join(t) for n in (1, 2, 3) for t in itertools.product(LETTERS, repeat=n)]

    def parse(t):
        try:
            p = PitchRest(t)
        except ValueError:
            return None
        return p
    recs = []
    for t in texts:
        for u in r.sample(texts, 10) + [t]:
            p, q = parse(t), parse(u)
            e = {'op': 'pitchrest', 'args': [], 't': cps(t), 'u': cps(u), 'kind': 2, 'letter': 0, 'oct': 0, 'isrest': False, 'eq': False, 'ne': False,
                 'cmpok': False, 'gt': False, 'lt': False, 'ge': False, 'le': False}
            if p is not None:
                e['isrest'] = bool(p.is_rest())
                e['kind'] = 0 if p.octave is None else 1
                if p.octave is not None:
                    e['letter'], e['oct'] = ord(p.pitch), int(p.octave)
                if q is not None:
                    e['eq'], e['ne'] = bool(p == q), bool(p != q)
                    try:
                        e['gt'], e['lt'], e['ge'], e['le'] = bool(p > q), bool(p < q), bool(p >= q), bool(p <= q)
                        e['cmpok'] = True
                    except ValueError:
                        pass
            recs.append(e)
    return recs


def run(thorough=False):
    """-> (summary dict, list of deviation descriptions, [TLCResult])"""
    tls, hists = [], []
    for part in ('cache', 'box', 'dur'):
        t = tlc.run_tlc('MC_Values', f'MC_Values_{part}.cfg', workers=8, timeout=900, label=f'MC_Values({part}: every history, laws on the state graph)')
        tls.append(t)
        hists += [b['hist'] for b in t.vp]
    for seed in ((3, 4, 5, 6) if thorough else (3,)):
        t = tlc.run_tlc('MC_Values', 'MC_Values_sim.cfg', workers=1, timeout=600, simulate='num=1500', depth=14, seed=seed, label='MC_Values(simulated mixed histories)')
        tls.append(t)
        hists += [b['hist'] for b in t.vp]
    r = random.Random(5)
    if len(hists) > 30000:
        hists = r.sample(hists, 30000)
    logs = [replay(h) for h in hists]
    pr = pitchrest_records(r)
    logs += [pr[i:i + 300] for i in range(0, len(pr), 300)]
    # the binding rejects a corrupted observation
    bad = [dict(e) for e in next(lg for lg in logs if any(e['op'] == 'req' and e['ok'] for e in lg))]
    k = next(i for i, e in enumerate(bad) if e['op'] == 'req' and e['ok'])
    bad[k] = dict(bad[k], obs=dict(bad[k]['obs'], ncalls=bad[k]['obs']['ncalls'] + 1))
    vb, _ = tlc.validate_traces('Trace_Values', [bad], shards=1)
    if [k + 1, 'req.cache_state'] not in vb[0].fails:
        raise MachineryError(f'Trace_Values self-test: corrupted invocation count accepted ({vb[0]})')
    verdicts, tl = tlc.validate_traces('Trace_Values', logs)
    tls += tl
    dev = []
    for lg, v in zip(logs, verdicts):
        if v.reached != v.length:
            dev.append(f'the value machine does not allow step {v.reached + 1} of {[(e["op"], e["args"]) for e in lg[:v.reached + 1]]}')
        for pos, clause in v.fails:
            e = lg[pos - 1]
            if e['op'] == 'pitchrest':
                dev.append(f"PitchRest {''.join(map(chr, e['t']))!r} vs {''.join(map(chr, e['u']))!r}: {e}")
            else:
                dev.append(f'clause {clause} fails at step {pos} of {[(x["op"], x["args"]) for x in lg[:pos]]}: returned ok={e["ok"]} v={e["v"]} objects={e["obs"]}')
    summ = {'value_histories_replayed': len(hists), 'value_pitchrest_records': len(pr), 'value_mc_states': sum(t.distinct for t in tls[:3]),
            'value_deviations': len(dev)}
    return summ, dev, tls
