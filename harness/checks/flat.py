"""Common driver for 'finite table' properties: MC runs + flat record traces validated by a Trace_* module."""
from __future__ import annotations

import copy

from ..common import MachineryError
from .. import tlc


def chunk(xs, n):
    return [xs[i:i + n] for i in range(0, len(xs), n)]


def selftest(module, recs, corrupt):
    """`corrupt(records)` returns (index, clause): it must modify exactly that record so that it is rejected."""
    probe = copy.deepcopy(recs)
    try:
        idx, clause = corrupt(probe)
    except StopIteration:
        return        # no record of the kind the probe corrupts among the answers of the implementation: nothing to probe (the answers are judged below)
    v, _ = tlc.validate_traces(module, [probe], shards=1)
    if v[0].accepted or [idx + 1, clause] not in v[0].fails:
        raise MachineryError(f'binding self-test failed for {module}: corrupted record {idx} -> {v[0]}')


def validate_flat(run, module, recs, describe, per_log=1500, classes_of=None):
    logs = chunk(recs, per_log)
    verdicts, tl = tlc.validate_traces(module, logs, timeout=1500)
    for t in tl:
        run.add_tlc(t)
    run.traces += len(recs)
    for log, v in zip(logs, verdicts):
        if v.reached != v.length:
            raise MachineryError(f'{module}: trace blocked at {v.reached}/{v.length}')
        for (pos, clause) in v.fails:
            r = log[pos - 1]
            cl, sym = classes_of(r) if classes_of else ((), None)
            run.violation({'record': r, 'input': describe(r)}, f'{describe(r)}: the specification ({module}) disagrees',
                          classes=cl, symptom=sym)


def fresh_record(recs, stored, keys):
    """--replay of a finite-table case: the stored record names the INPUT; the call is made again on the current code (the whole
    table is re-recorded, which takes seconds) and the fresh record with the same input is validated."""
    for r in recs:
        if all(r.get(k) == stored.get(k) for k in keys):
            return [r]
    raise MachineryError('replay: the stored input is not part of the recorded table any more')
