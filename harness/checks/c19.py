"""C19 - concatenation indexes address the fragments.

model:    spec/Transform.tla: ConcatPairs(ends), PairData, FragmentDataLines over the SpinePaths state of the JOINED text
MC:       MC_Transform!ConcatLaw: every closed kern-only state of the bounded importer machine x EVERY subset of its barline rows
          as cut set: pairs consecutive, last 'to' = M, exporting pair i gives exactly the data lines of fragment i
binding:  random **kern scores of C07's domain cut before every subset of their barline lines (<= 6 fragments, <= 24 cut sets per
          score), newline separator (fragments without final newline) and empty separator (fragments with it): kp.concat's pairs,
          its document (deep snapshot against the import of the joined text) and the export of every pair are validated by TLC.
"""
from __future__ import annotations

import itertools
import random

from ..common import Run, main_wrapper, parse_args, MachineryError, cps, uncps
from .. import tlc, session, gen
from . import docs, docprops as dp


def sess_concat(seed, sep='\n'):
    import kernpy as kp
    # invisible barlines ('=1-') are barlines: they open measures and are legal cut positions (only data lines are compared)
    r, lines, types = dp.make_doc(seed, 'kern_only', max_rows=22, hidden_bars=(seed % 3 == 0), mid_sigs=False, max_spines=3, mid_comments=False,
                                  pre_comments=False, post_comments=(seed % 2 == 1), final_bar=0.5, opening_bar=0.5)   # every other score ends with '!!' lines after '*-'
    if seed % 5 == 4:
        # a score without any clef, key or time signature: the excerpt of a later fragment has nothing to restate
        lines = [e for e in lines if not (e['ev'] == 'row' and any(c['k'] in gen.SIGKINDS for c in e['cells']))]
    texts = [session.line_text(e) for e in lines]
    bar_idx = [i for i, e in enumerate(lines) if e['ev'] == 'row' and e['cells'][0]['k'] == 'bar' and i > 0]
    cutsets = [list(c) for n in range(0, 6) for c in itertools.combinations(bar_idx, n)]
    if len(cutsets) > 24:
        cutsets = [cutsets[0]] + r.sample(cutsets[1:], 23)
    if sep == '\n':
        joined_lines = [{'ev': 'blank'}] + lines          # concat starts the text with the separator
        evs, doc, text = session.record_import(joined_lines, final_eol=False)
    else:
        evs, doc, text = session.record_import(lines)
    if doc is None:
        return dp.finish_session(lines, evs, text, seed, {'concat'})
    base = session.snapshot(doc)
    # BASE: the export without barlines (data lines are what C19 compares; invisible barlines export differently, finding D18)
    evs.append(session.record_call(doc, {'op': 'dumps', 'args': session.dumps_args(exc=['BARLINES']), 'exact': False, 'role': 'base'}))
    base_ev = len(evs)
    stage_of = {}
    k = 1
    for i, e in enumerate(lines):
        k += 1
        stage_of[i] = k
    for cuts in cutsets:
        bounds = [0] + cuts + [len(lines)]
        frags = [texts[bounds[j]:bounds[j + 1]] for j in range(len(bounds) - 1)]
        contents = ['\n'.join(f) + ('' if sep == '\n' else '\n') for f in frags]
        ev = {'ev': 'concat', 'cuts': cuts, 'sep': cps(sep), 'ends': [stage_of[b - 1] for b in bounds[1:]], 'nfrag': len(frags), 'base': base_ev}
        try:
            dc, pairs = kp.concat(contents, separator=sep)
            ev['pairs'] = [[int(a), int(b)] for a, b in pairs]
            ev['mst'] = [m + 1 for m in dc.measure_start_tree_stages]
            ev['same'] = session.snapshot(dc) == base
            ev['exports'] = []
            for a, b in pairs:
                try:
                    out = kp.dumps(dc, from_measure=a, to_measure=b)
                    ev['exports'].append({'ok': True, 'grid': session.grid_of(out), 'exc': ''})
                except Exception as ex:  # noqa
                    ev['exports'].append({'ok': False, 'grid': [], 'exc': type(ex).__name__})
            try:
                ev['mcount_after'] = int(dc.measures_count())          # "the last 'to' equals the measure count" - also once the pairs were exported
            except Exception:  # noqa
                ev['mcount_after'] = 0
        except Exception as ex:  # noqa
            ev.update(pairs=[], same=False, exports=[], exc=type(ex).__name__, mst=[], mcount_after=0)
        evs.append(ev)
    tags = dp.features(lines) | {'concat', 'sep=' + repr(sep)}
    return dp.finish_session(lines, evs, text, seed, tags)


def main():
    a = parse_args()
    quick = a.tier == 'quick'
    run = Run('C19', a.tier, a.seed, assumptions=[
        'I7: the first pair starts at 0', 'cuts are made before barline lines (property text)', 'scores are of C07\'s domain: kern-only, '
        'signatures before the first measure (every fifth score has no signature at all); every third score has invisible barlines'])
    run.rule = ('seeded kern-only scores x up to 24 cut sets (every subset of the barline lines when there are <= 24) x 2 separators; '
                'non-trivial = distinct (score, cut set, separator) with >= 2 fragments')
    run.add_tlc(tlc.run_tlc('MC_Transform', 'MC_Transform.cfg', workers=16, timeout=3000, label='MC_Transform(ConcatLaw)'))
    if a.replay_case:
        sess = docs.replay_sessions(a.replay_case)
    else:
        n = 60 if quick else 1200
        sess = docs.build_sessions(sess_concat, [a.seed * 1000003 + i for i in range(n)], sep='\n')
        sess += docs.build_sessions(sess_concat, [a.seed * 1000003 + i for i in range(n)], sep='')
    docs.validate_sessions(run, sess, relevant=docs.relevant_for(run.pid))
    for s in sess:
        for e in s['log']:
            if e['ev'] == 'concat' and e['nfrag'] >= 2:
                run.nontrivial.add((s['text'], tuple(e['cuts']), tuple(e['sep'])))
    run.evaluations = sum(1 for s in sess for e in s['log'] if e['ev'] == 'concat')
    s = sess[0]
    e = next((e for e in s['log'] if e['ev'] == 'concat' and e['nfrag'] >= 2), None)
    run.sample({'text': s['text'][:400], 'cut_before_lines': e and e['cuts'], 'pairs': e and e['pairs']})
    run.exhaustive = False
    return run.finish()


if __name__ == '__main__':
    main_wrapper(main)
