"""C09 - transposition is exact interval arithmetic.

model:    spec/Pitch.tla  (RefT: letter/semitone model; T40: kernpy's base-40 design; Intervals derived from names)
MC:       MC_Pitch over the full grid 7 x 5 x 9 x 40 x 2 = 25,200: Agree, LetterAndSound, Inverse, Unison, Octave,
          FourthFifth (+ constant facts Count40, NumbersDistinct as ASSUMEs)
binding:  kernpy.transpose is called on all 25,200 cases + the inverse call + the fourth/fifth/octave compositions,
          and the Chromas / Intervals tables are dumped; TLC validates every record (Trace_Pitch).
"""
from __future__ import annotations

from ..common import Run, main_wrapper, parse_args, MachineryError
from .. import tlc
from . import pitchrec, flat


def describe(r):
    if r['op'] == 'transpose':
        out = repr(''.join(map(chr, r['out']))) if r['ok'] else r['exc']
        return (f"transpose({''.join(map(chr, r['inp']))!r}, {r['iv']}, {'up' if r['up'] else 'down'}) -> "
                f"{out}; back -> {''.join(map(chr, r['back']))!r}")
    if r['op'] == 'compose':
        return (f"P4 then P5 {'up' if r['up'] else 'down'} from {''.join(map(chr, r['inp']))!r} -> "
                f"{''.join(map(chr, r['out45']))!r}; octave -> {''.join(map(chr, r['out8']))!r}")
    if r['op'] == 'objstep':
        return (f"pitch object step {r['kind']} {r.get('iv', '')} {'up' if r.get('up') else ''}: the object should be (letter {r['l']}, alteration {r['a']}, octave {r['o']}) "
                f"and is ({r['name']}, {r['oct']}); result ok={r['ok']} ({r['rname']}, {r['roct']}) chroma={r['val']} export={''.join(map(chr, r['out']))!r}")
    return str(r)[:200]


def apalache_unbounded_octaves(run):
    """An ADDITION to the TLC checks (not a replacement): Apalache discharges LetterAndSound and Inverse of the letter / semitone model
    for EVERY integer octave (spec/PitchInd.tla, symbolic, length 0), where TLC covers octaves 0..8.  Skipped (and said so in the
    evidence) when apalache-mc is not available; a counterexample is a machinery failure of the MODEL, never a VIOLATION of kernpy."""
    import shutil
    import subprocess
    import tempfile
    from ..common import SPEC
    exe = shutil.which('apalache-mc')
    if not exe:
        run.note('apalache_unbounded_octaves', 'skipped: apalache-mc not on PATH')
        return
    out = tempfile.mkdtemp(prefix='kernpy_apalache_')
    try:
        p = subprocess.run([exe, 'check', '--init=Init', '--next=Next', '--inv=Inv', '--length=0', '--out-dir=' + out, 'PitchInd.tla'],
                           cwd=SPEC, stdout=subprocess.PIPE, stderr=subprocess.STDOUT, text=True, timeout=600)
        ok = 'EXITCODE: OK' in p.stdout and 'NoError' in p.stdout
        if not ok and 'EXITCODE: ERROR (12)' in p.stdout:
            raise MachineryError('Apalache found a counterexample to the transposition laws of the MODEL (spec/PitchInd.tla)')
        run.note('apalache_unbounded_octaves', 'LetterAndSound and Inverse hold for every integer octave (Apalache, symbolic)' if ok
                 else 'not completed: ' + p.stdout[-200:])
    except subprocess.TimeoutExpired:
        run.note('apalache_unbounded_octaves', 'not completed: timeout')
    finally:
        shutil.rmtree(out, ignore_errors=True)


def main():
    a = parse_args()
    run = Run('C09', a.tier, a.seed, assumptions=[
        'interval names follow kernpy (quality + number, "octave")', 'results with three accidentals are unconstrained (property text)'])
    run.rule = ('exhaustive grid 7 letters x 5 alterations x octaves 0..8 x 40 intervals x 2 directions, each with the inverse call, '
                'plus P4.P5 = octave compositions and the two tables; non-trivial = distinct transposition records whose interval '
                'is not the unison')
    run.add_tlc(tlc.run_tlc('MC_Pitch', workers=8, timeout=900))
    apalache_unbounded_octaves(run)
    recs = pitchrec.record_tables() + pitchrec.record_transpose()
    # a pitch OBJECT under a history of setter / chroma / transposition / export calls: every history of length 3 and simulated
    # histories of length 10 (MC_PitchObj), each replayed on one real AgnosticPitch object
    ex3 = tlc.run_tlc('MC_PitchObj', 'MC_PitchObj_3.cfg', workers=8, timeout=900, label='MC_PitchObj(len<=3)')
    sim = tlc.run_tlc('MC_PitchObj', 'MC_PitchObj_10.cfg', workers=1, timeout=900, simulate='num=%d' % (60 if a.tier == 'quick' else 600), depth=11,
                      seed=a.seed % 100000, label='MC_PitchObj(simulate len=10)')
    run.add_tlc(ex3)
    run.add_tlc(sim)
    import json as _json
    # a canonical order (TLC's workers emit in any order): the position of a history identifies it in a replay file
    hists = sorted((h['hist'] for h in ex3.vp), key=_json.dumps) + [h['hist'] for h in sim.vp][:1500 if a.tier == 'quick' else 15000]
    if len(ex3.vp) < 1000 or len(sim.vp) < 50:
        raise MachineryError(f'unexpected number of pitch-object histories: {len(ex3.vp)} + {len(sim.vp)}')
    nobj = 0
    for h in hists:
        part = pitchrec.replay_object_history(h)
        for r in part:
            r['hid'] = nobj                  # which history the step belongs to (a stored violation is replayed with its whole history)
        recs += part
        nobj += 1
    run.note('pitch_object_histories', nobj)
    if a.replay_case:
        st = a.replay_case['case']['record']
        if st.get('op') == 'objstep':
            # the whole history - and the histories the process went through before it (state may live in the process, not in the
            # object) - re-executed on the current code
            recs = [r for r in recs if r.get('op') == 'objstep' and r.get('hid', 0) <= st.get('hid', -1)]
            if not recs:
                raise MachineryError('replay: the stored history is not among the enumerated ones any more')
        else:
            recs = flat.fresh_record(recs, st, ('op', 'l', 'a', 'o', 'iv', 'up', 'name'))
    if not a.replay_case:
        def corrupt(rs):
            i = next(i for i, r in enumerate(rs) if r['op'] == 'transpose' and r['ok'] and r['iv'] == 'M2' and r['up'])
            rs[i]['out'] = rs[i]['out'][:-1] + [rs[i]['out'][-1] ^ 1] if rs[i]['out'] else [99]
            return i, 'transpose'
        flat.selftest('Trace_Pitch', recs[:200], corrupt)
    flat.validate_flat(run, 'Trace_Pitch', recs, describe, per_log=1700)
    run.evaluations = len(recs)
    run.exhaustive = True
    for r in recs:
        if r['op'] == 'transpose' and r['iv'] != 'P1':
            run.nontrivial.add((r['l'], r['a'], r['o'], r['iv'], r['up']))
    tr = [r for r in recs if r['op'] == 'transpose']
    for r in tr[::max(1, len(tr) // 4)][:4]:
        run.sample({'call': describe(r)})
    run.note('spellable_cases', sum(1 for r in tr if r['ok']))
    run.note('raising_cases', sum(1 for r in tr if not r['ok']))
    return run.finish()


if __name__ == '__main__':
    main_wrapper(main)
