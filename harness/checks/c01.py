"""C01 - the normalised export is a fixed point of import-then-export; the normal form is canonical.

model:    spec/NoteGrammar.tla; MC_NoteGrammar = the writer automaton of single notes (signifiers in any position, order and
          repetition around duration / pitch / accidental)
MC:       on every `done` state: Canonical (the normal form depends only on the content), CanonIsWritable (the kern export is
          itself the text of the canonical arrangement, in the grammar's domain, and exports to itself: idempotence on the
          model), ExtendedStripsToPlain, BasicDropsSignifiers; action properties RepetitionIrrelevant, PositionIrrelevant
binding:  (a) spec -> code: every token the automaton can write (all 34 signifiers in all 4 positions x 7 duration shapes x 2
          pitches x 5 accidentals; pairs in the thorough tier) goes through the real ANTLR importer inside documents; the
          exports and the re-exports of their re-imports are validated by TLC;
          (b) code -> spec: random documents of C01's grammar: dumps, dumps . loads . dumps, the same through eKern and
          get_kern_from_ekern, and two further arrangements (order / position / repetition of signifiers changed) of every
          note; TLC validates exports against Export.tla and the fixed-point / same-normal-form relations on the logged outputs.
"""
from __future__ import annotations

import random

from ..common import main_wrapper, parse_args, Run, MachineryError
from .. import tlc, session, gen
from . import docs, docprops as dp

_TOKENS = []


def sess_tokens(idx, per=40, chunk=None):
    """one document holding `per` of the tokens the writer automaton emitted, one per line."""
    chunk = chunk if chunk is not None else _TOKENS[idx * per:(idx + 1) * per]
    lines = [{'ev': 'header', 'cells': [gen.lit('hdr', '**kern')]}]
    for t in chunk:
        lines.append({'ev': 'row', 'cells': [{'k': 'note', 't': t['t'], 'n': t['n']}]})
    lines.append({'ev': 'row', 'cells': [gen.TERM()]})
    evs, doc, text = session.record_import(lines)
    if doc is not None:
        evs.append(session.record_call(doc, {'op': 'dumps', 'args': session.dumps_args(), 'exact': True}))
        k1 = len(evs)
        evs.append(session.record_call(doc, {'op': 'dumps', 'args': session.dumps_args(enc='ekern'), 'exact': True}))
        k2 = len(evs)
        evs.append(session.record_reexport(doc, k1, 'kern'))
        evs.append(session.record_reexport(doc, k2, 'ekern'))
    return {'log': evs, 'text': text, 'classes': [], 'seed': idx, 'tags': ['writer-automaton-tokens'],
            'replay': {'fn': 'harness.checks.c01:sess_tokens', 'seed': idx, 'kw': {'chunk': chunk}}}


def main():
    a = parse_args()
    quick = a.tier == 'quick'
    run = Run('C01', a.tier, a.seed, assumptions=[
        'I9: canonicity is claimed for the 34 single-character signifiers that combine with no neighbour (rule-derived from the grammar) and, in a population of its own, seven signifiers of more than one character whose runs do not merge',
        'the eight accidental-display characters are signifiers only on notes without accidental (property text)',
        'the extended round trip uses get_kern_from_ekern to remove the separators'])
    run.rule = ('(a) every token of the writer automaton (MaxSig=%d) inside documents of 40 notes; (b) seeded random documents with two '
                're-arrangements each; non-trivial = distinct documents containing a note with >= 2 signifier occurrences, a chord or a '
                'non-kern spine') % (1 if quick else 2)
    run.note('explored_classes', ['chord_union_not_writable'])
    mc = tlc.run_tlc('MC_NoteGrammar', 'MC_NoteGrammar_q.cfg' if quick else 'MC_NoteGrammar_t.cfg', workers=16, timeout=3000)
    run.add_tlc(mc)
    global _TOKENS
    toks = mc.vp
    if not toks:
        raise MachineryError('MC_NoteGrammar emitted no token')
    rnd = random.Random(a.seed)
    if len(toks) > 60000:
        toks = rnd.sample(toks, 60000)
    _TOKENS = toks
    run.note('automaton_tokens_emitted', len(mc.vp))
    run.note('automaton_tokens_replayed', len(toks))
    if a.replay_case:
        sess = docs.replay_sessions(a.replay_case)
    else:
        sess = docs.build_sessions(sess_tokens, range((len(toks) + 39) // 40))
        # invisible barlines ('=1-', '=-||'): what is printed for them is C03's business (finding D18); that the normal form is a fixed
        # point and canonical is claimed for these documents like for any other
        pops = [('main', 220 if quick else 5000, {}), ('explore_chords', 40 if quick else 300, {'profile': 'explore_chords'}),
                ('invisible_barlines', 60 if quick else 800, {'profile': 'hidden'}),
                ('multi_character_signifiers', 60 if quick else 800, {'profile': 'multi_sigs'}),
                ('added_spines_and_sections', 40 if quick else 500, {'ext': True})]
        for k, (label, n, kw) in enumerate(pops):
            fixed = label == 'explore_chords'          # a fixed corpus: its failing cases are listed one by one in known_findings.json
            part = docs.build_sessions(dp.sess_c01, [(777000000 + i) if fixed else (a.seed * 1000003 + k * 100000007 + i) for i in range(n)], **kw)
            for s in part:
                s['tags'] = list(s['tags']) + [label]
                if fixed:
                    s['case_id'] = f"{label}:{s['seed']}"
            sess += part
            run.note('population_' + label, n)
        docs.selftest_session(next(s for s in sess if len(s['log']) > 10 and 'main' in s['tags']))
    docs.validate_sessions(run, sess, relevant=docs.relevant_for(run.pid))
    run.evaluations = sum(1 for s in sess for e in s['log'] if e['ev'] == 'call') + len(toks)
    for s in sess:
        if 'writer-automaton-tokens' in s['tags'] or set(s['tags']) & {'chord', 'non-kern', 'split'}:
            run.nontrivial.add(s['text'])
    for s in (sess[0], sess[len(sess) // 2], sess[-1]):
        run.sample({'text': s['text'][:400], 'tags': s['tags'], 'events': len(s['log'])})
    run.exhaustive = False
    return run.finish()


if __name__ == '__main__':
    main_wrapper(main)
