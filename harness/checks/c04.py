"""C04 - the six encodings are consistent views of one document.

model:    spec/NoteGrammar.tla (Plain, BasicExt, BasicPlain, NoteAgnExt as transformations of the extended text),
          spec/Export.tla (CellView per encoding, header rule)
MC:       MC_NoteGrammar: ExtendedStripsToPlain, BasicDropsSignifiers on every written note; MC_SpinePaths CommuteLaw
binding:  random documents x 3 category selections that keep durations or pitches x 6 encodings: each real export is validated
          by TLC against ExportGrid, and the three textual relations of the property (plain = extended minus separators,
          basic = full minus signifiers note by note with no chord note lost, header = ** + prefix + type, agnostic differs from
          kern only in pitch letters) are evaluated by TLC directly on the six LOGGED grids.
"""
from ..common import main_wrapper
from . import docprops as dp


def symptom_of(clause, ev, s):
    if ev.get('op') == 'dumps' and ev['args']['enc'] in ('akern', 'aekern'):
        return 'agnostic.' + clause
    if ev.get('op') == 'relation' and ev['rel'] == 'agn_vs_kern':
        return 'agnostic.' + clause
    return clause


def main():
    return dp.doc_main(
        'C04',
        assumptions=['I6: opaque cell texts contain neither "@" nor the decoration separator',
                     'the extended agnostic form glues the converted pitch and its accidental into one unit'],
        rule='per document: 3 category selections (keeping DURATION or PITCH) x 6 encodings + 5 relations each; non-trivial = '
             'distinct documents with a chord carrying signifiers or a non-kern spine',
        mc=[('MC_NoteGrammar', 'MC_NoteGrammar_c04.cfg', 'MC_NoteGrammar(ExtendedStripsToPlain, BasicDropsSignifiers)'),
            ('MC_SpinePaths', 'MC_SpinePaths_opts.cfg', 'MC_SpinePaths(CommuteLaw)')],
        populations=[('main', dp.sess_c04, 110, 2500, {}), ('own_spine_types', dp.sess_c04, 30, 300, {'own_types': True}),
                     ('multi_character_signifiers', dp.sess_c04, 20, 300, {'profile': 'multi_sigs'}),
                     ('root_spines', dp.sess_c04, 10, 150, {'profile': 'with_root'}),
                     ('free_text_with_runs_of_blanks', dp.sess_c04, 20, 300, {'blanks': True})],
        nontrivial=lambda s: bool(set(s['tags']) & {'chord', 'non-kern'}),
        symptom_of=symptom_of, explored=['natural_or_display_suffix'])


if __name__ == '__main__':
    main_wrapper(main)
