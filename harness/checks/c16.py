"""C16 - the pitch spelling codec is lossless and side-effect free.

model:    spec/Pitch.tla (Spell / Unspell on code points), MC_PitchCodec: object machine Import . Export . Export over the
          539 spellings; invariants ImportRight, ExportRoundTrip, action property ExportPure
binding:  every behaviour of that machine is replayed into real HumdrumPitchImporter / HumdrumPitchExporter objects, the
          (name, octave) of the pitch object is read after each step, and TLC validates the record (Trace_Pitch "codec").
"""
from __future__ import annotations

from ..common import Run, main_wrapper, parse_args
from .. import tlc
from . import pitchrec, flat


def describe(r):
    s = ''.join(map(chr, r['inp']))
    return (f"import {s!r} -> ({r['name0']}, {r['oct0']}); export -> {''.join(map(chr, r['out1']))!r} obj=({r['name1']}, {r['oct1']}); "
            f"export -> {''.join(map(chr, r['out2']))!r} obj=({r['name2']}, {r['oct2']})")


def main():
    a = parse_args()
    run = Run('C16', a.tier, a.seed, assumptions=['octave n>=4 is written with n-3 lower-case letters, n<=3 with 4-n upper-case letters'])
    run.rule = ('exhaustive: 7 letters x alterations -3..3 x octaves -1..9 = 539 spellings, each driven through Import.Export.Export on '
                'real objects; non-trivial = spellings with an accidental or more than one letter')
    run.add_tlc(tlc.run_tlc('MC_PitchCodec', workers=4, timeout=600))
    recs = pitchrec.record_codec()
    if a.replay_case:
        recs = flat.fresh_record(recs, a.replay_case['case']['record'], ('op', 'l', 'a', 'o'))
    if not a.replay_case:
        def corrupt(rs):
            i = next(i for i, r in enumerate(rs) if r['a'] == 1)
            rs[i]['name2'] = rs[i]['name2'].replace('+', '')
            return i, 'codec'
        flat.selftest('Trace_Pitch', recs[:120], corrupt)
    flat.validate_flat(run, 'Trace_Pitch', recs, describe, per_log=100)
    run.evaluations = len(recs)
    run.exhaustive = True
    for r in recs:
        if r['a'] != 0 or len(r['inp']) > 1:
            run.nontrivial.add((r['l'], r['a'], r['o']))
    for r in recs[::180][:4]:
        run.sample({'history': describe(r)})
    return run.finish()


if __name__ == '__main__':
    main_wrapper(main)
