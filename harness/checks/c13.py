"""C13 - export options act independently of one another.

model:    spec/Export.tla: ExportGrid(o) is defined cell by cell from three independent gates (spine, category, encoding)
MC:       MC_SpinePaths with CommuteLaw (rendering all spines under (cats, enc) then projecting on S = exporting with ids S, for
          every subset S, a family of category selections and three encodings), FilterIdentity, ProjectionLaw
binding:  random documents x seeded option combinations (spine ids x spine types x include x exclude x six encodings), each
          validated by TLC against ExportGrid; explicit-default calls must equal the omitted form (same_as events).
"""
from ..common import main_wrapper
from . import docprops as dp
from .c04 import symptom_of


def main():
    return dp.doc_main(
        'C13',
        assumptions=['I1 null spellings are one value', 'agnostic encodings raise when a selected pitch has no clef in force (Export!CellView)'],
        rule='per document 36 random option combinations + explicit-default twins; non-trivial = distinct documents with >= 2 spines',
        mc=[('MC_SpinePaths', 'MC_SpinePaths_opts.cfg', 'MC_SpinePaths(CommuteLaw, FilterIdentity, SubsequenceLaw)'),
            ('MC_SpinePaths', 'MC_SpinePaths_c06.cfg', 'MC_SpinePaths(ProjectionLaw)')],
        populations=[('main', dp.sess_c13, 110, 1800, {}), ('multi_character_signifiers', dp.sess_c13, 15, 300, {'profile': 'multi_sigs'}), ('root_spines', dp.sess_c13, 8, 150, {'profile': 'with_root'})],
        nontrivial=lambda s: 'multi-spine' in s['tags'],
        symptom_of=symptom_of, explored=['natural_or_display_suffix'])


if __name__ == '__main__':
    main_wrapper(main)
