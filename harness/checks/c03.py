"""C03 - export conserves the score content cell for cell.

model:    spec/Export.tla (ExportGrid with default options), spec/NoteGrammar.tla (what a note/chord/barline prints)
MC:       MC_SpinePaths with invariant Conserve: in every closed state of the bounded instance the default export is the
          source grid minus global comments and all-null lines, cell for cell
binding:  random documents of C01's grammar; the real dumps(doc) and dumps(doc, encoding=eKern) are validated by TLC
          (Trace_Session) against ExportGrid computed from the generator's abstract description of every cell.
"""
from ..common import main_wrapper
from . import docprops as dp


def main():
    return dp.doc_main(
        'C03',
        assumptions=['I6: opaque cell texts contain neither "@" nor the decoration separator',
                     'chord notes may carry any signifier set between their own and the chord\'s union (property text)',
                     'rests written rr normalise to r'],
        rule='seeded random documents (1-4 spines of the 8 supported types, splits/joins, every barline type, comments, nulls); '
             'each session = import (tree and tokens observed per line) + exact default and ekern exports; non-trivial = distinct '
             'documents with at least one split, chord or non-kern spine',
        mc=[('MC_SpinePaths', 'MC_SpinePaths_c03.cfg', 'MC_SpinePaths(Conserve)')],
        populations=[('main', dp.sess_c03, 300, 5000, {}),
                     ('hidden', dp.sess_c03, 40, 400, {'profile': 'hidden'}),
                     ('explore_chords', dp.sess_c03, 40, 400, {'profile': 'explore_chords'}),
                     ('dots', dp.sess_c03, 40, 400, {'dots': True}),
                     ('multi_character_signifiers', dp.sess_c03, 60, 800, {'profile': 'multi_sigs'}),
                     ('root_spines', dp.sess_c03, 20, 300, {'profile': 'with_root'}),
                     ('added_spines_and_sections', dp.sess_c03, 40, 400, {'ext': True})],
        nontrivial=lambda s: bool(set(s['tags']) & {'split', 'chord', 'non-kern'}),
        explored=['hidden_barline', 'chord_note_without_duration'])


if __name__ == '__main__':
    main_wrapper(main)
