"""Shared plumbing for all checks: seeds, evidence, replay files, known findings, exit codes.

Exit codes (DESIGN.md section 8):
  0  the property held on everything explored (KNOWN-FINDING lines may have been printed)
  1  a violation that known_findings.json does not list; a line
        VIOLATION property=<id> replay=<path>
     has been printed for it
  2  machinery failure (TLC crashed, the binding could not run, a vacuous run ...).  Never
     accompanied by a VIOLATION line.
"""
from __future__ import annotations

import json
import os
import sys
import time
import traceback

VERIF = os.path.dirname(os.path.dirname(os.path.abspath(__file__)))
SPEC = os.path.join(VERIF, 'spec')
EVIDENCE = os.path.join(VERIF, 'evidence')
REPLAYS = os.path.join(VERIF, 'replays')
KNOWN = os.path.join(VERIF, 'known_findings.json')
NCPU = int(os.environ.get('VERIF_WORKERS', os.cpu_count() or 4))


class MachineryError(Exception):
    """The check could not be carried out (exit 2)."""


def seed_from_env(default: int = 20260926) -> int:
    try:
        return int(os.environ.get('VERIF_SEED', default))
    except ValueError:
        return default


def load_known():
    with open(KNOWN, encoding='utf-8') as f:
        return json.load(f)['findings']


class Run:
    """One invocation of one check."""

    def __init__(self, pid: str, tier: str, seed: int, assumptions=None):
        self.pid = pid
        self.tier = tier
        self.seed = seed
        self.t0 = time.time()
        self.states = 0
        self.transitions = 0
        self.traces = 0          # behaviours replayed into kernpy + recorded traces validated by TLC
        self.evaluations = 0
        self.nontrivial = set()  # hashable keys of distinct non-trivial cases
        self.rule = ''
        self.samples = []
        self.extra = {}
        self.assumptions = list(assumptions or [])
        self.violations = 0
        self.known_seen = {}     # (class, symptom) -> count
        self.known = [k for k in load_known() if k.get('property') == pid and k.get('status') == 'open']
        self.exhaustive = None
        self.tlc_runs = []
        self._viol_printed = 0
        self._case_sets = {}
        import glob
        for f in ([] if os.environ.get('VERIF_REPLAY_MODE') else glob.glob(os.path.join(REPLAYS, pid, f'{tier}-*.json'))):      # replay files of earlier runs of this tier
            try:
                os.remove(f)
            except OSError:
                pass

    # ---- bookkeeping -------------------------------------------------------------------
    def add_tlc(self, res, label=None):
        self.states += res.distinct
        self.transitions += res.generated
        self.tlc_runs.append({'label': label or res.label, 'distinct_states': res.distinct,
                              'states_generated': res.generated, 'wall_s': round(res.wall, 2),
                              'coverage': res.coverage or None})

    def sample(self, case, limit=6):
        if len(self.samples) < limit:
            self.samples.append(case)

    def note(self, key, value):
        self.extra[key] = value

    # ---- verdicts ----------------------------------------------------------------------
    def match_known(self, classes, symptom, case_key=None):
        """An open finding matches when the case belongs to the finding's input class AND shows its symptom.  A finding
        with scope "cases" (classes in which only SOME inputs fail) additionally lists the failing cases of the fixed explored
        corpus one by one: only those match, so that a different failure in the same class is still reported."""
        for k in self.known:
            kcl = set(k.get('classes') or [k['class']])
            if kcl & set(classes) and k['symptom'] == symptom:
                if k.get('scope') == 'cases':
                    if case_key is not None and case_key in self._case_sets.setdefault(id(k), set(k.get('cases', []))):
                        return k
                    continue
                return k
        return None

    def violation(self, case: dict, what: str, classes=(), symptom=None, case_key=None):
        """Report a mismatch.  `classes`: input classes the failing case belongs to (computed from the
        generator's description, never from the failure).  Returns True if it is a listed known finding."""
        if os.environ.get('VERIF_LIST_CASES') and case_key is not None and symptom:
            for k0 in self.known:
                if k0.get('scope') == 'cases' and (set(k0.get('classes') or [k0['class']]) & set(classes)) and k0['symptom'] == symptom:
                    print(f'CASE-KEY\t{self.pid}\t{symptom}\t{case_key}')
        k = self.match_known(set(classes), symptom, case_key) if symptom else None
        if k is not None:
            key = (k.get('class') or '+'.join(k.get('classes', [])), k['symptom'])
            if key not in self.known_seen:
                ex = case.get('text') or case.get('input') or k.get('example')
                print(f"KNOWN-FINDING: property={self.pid} {key[0]}: {k['symptom']} ({k.get('defect','')}) e.g. {json.dumps(ex, ensure_ascii=False)[:160]}")
            self.known_seen[key] = self.known_seen.get(key, 0) + 1
            return True
        self.violations += 1
        if os.environ.get('VERIF_DEBUG'):
            key = (symptom, tuple(sorted(classes)), tuple((case.get('tags') or [])[:1]))
            self.extra.setdefault('_dbg', {})
            self.extra['_dbg'][str(key)] = self.extra['_dbg'].get(str(key), 0) + 1
        os.makedirs(os.path.join(REPLAYS, self.pid), exist_ok=True)
        path = os.path.join(REPLAYS, self.pid, f"{'replayed-' if os.environ.get('VERIF_REPLAY_MODE') else ''}{self.tier}-{self.seed}-{self.violations}.json")
        if self._viol_printed < 25:
            with open(path, 'w', encoding='utf-8') as f:
                json.dump({'property': self.pid, 'what': what, 'classes': sorted(classes), 'symptom': symptom,
                           'case': case}, f, ensure_ascii=False, indent=1, default=str)
            print(f'VIOLATION property={self.pid} replay={path}')
            print(f'  {what}'[:600])
            self._viol_printed += 1
        return False

    def finish(self):
        wall = time.time() - self.t0
        for k, v in sorted(self.extra.pop('_dbg', {}).items()):
            print('DEBUG-VIOLATION-CLASS', v, k)
        for k in self.known:
            kname = k.get('class') or '+'.join(k.get('classes', []))
            if (kname, k['symptom']) not in self.known_seen:
                if self.extra.get('explored_classes') and (set(k.get('classes') or [k['class']]) & set(self.extra['explored_classes'])):
                    print(f"KNOWN-FINDING-NOT-REPRODUCED: property={self.pid} {kname}: {k['symptom']} (informational)")
        cov = {
            'states': self.states, 'transitions': self.transitions,
            'traces_validated_against_impl': self.traces,
            'evaluations': self.evaluations, 'distinct_nontrivial': len(self.nontrivial),
            'rule': self.rule, 'samples': self.samples[:6] or [{'note': 'no sample recorded'}],
            'tlc_runs': self.tlc_runs,
            'known_findings_seen': [{'class': c, 'symptom': s, 'count': n} for (c, s), n in sorted(self.known_seen.items())],
        }
        if self.exhaustive is not None:
            cov['exhaustive'] = bool(self.exhaustive)
        cov.update(self.extra)
        ev = {'property_id': self.pid, 'tier': self.tier, 'seed': self.seed, 'level': 'model_checking',
              'coverage': cov, 'assumptions': self.assumptions, 'wall_s': round(wall, 2),
              'violations': self.violations}
        if self.states < 1 or self.transitions < 1:
            raise MachineryError('no TLC run contributed states: refusing to write model_checking evidence')
        if os.environ.get('VERIF_REPO', '/repo') != '/repo' and not os.environ.get('VERIF_REPLAY_MODE'):
            # development run against a scratch copy of the repository: never touches the evidence of /repo
            print(f'[{self.pid}] (VERIF_REPO={os.environ["VERIF_REPO"]}: evidence file not written)')
            st = 'VIOLATED' if self.violations else 'held'
            print(f'[{self.pid}] {st}: tier={self.tier} seed={self.seed} states={self.states} traces={self.traces} known={sum(self.known_seen.values())} violations={self.violations} wall={wall:.1f}s')
            return 1 if self.violations else 0
        if getattr(self, 'no_evidence', False) or os.environ.get('VERIF_REPLAY_MODE'):          # --replay: a single case, not a run that describes coverage
            print(f'[{self.pid}] replay: violations={self.violations} known={sum(self.known_seen.values())}')
            return 1 if self.violations else 0
        os.makedirs(EVIDENCE, exist_ok=True)
        tmp = os.path.join(EVIDENCE, f'.{self.pid}.json.tmp')
        with open(tmp, 'w', encoding='utf-8') as f:
            json.dump(ev, f, ensure_ascii=False, indent=1, default=str)
        os.replace(tmp, os.path.join(EVIDENCE, f'{self.pid}.json'))
        status = 'VIOLATED' if self.violations else 'held'
        print(f'[{self.pid}] {status}: tier={self.tier} seed={self.seed} states={self.states} transitions={self.transitions} '
              f'traces={self.traces} evaluations={self.evaluations} nontrivial={len(self.nontrivial)} '
              f'known={sum(self.known_seen.values())} violations={self.violations} wall={wall:.1f}s')
        return 1 if self.violations else 0


def main_wrapper(fn):
    """Run a check's main(); map exceptions to exit 2 so that a broken harness never looks like a violation."""
    try:
        rc = fn()
    except MachineryError as ex:
        print(f'MACHINERY-FAILURE: {ex}', file=sys.stderr)
        sys.exit(2)
    except SystemExit:
        raise
    except BaseException:  # noqa
        traceback.print_exc()
        print('MACHINERY-FAILURE: unexpected exception in the harness', file=sys.stderr)
        sys.exit(2)
    sys.exit(rc)


def fresh(s):
    """an equal string that is NOT the interned constant (what a caller reads from a file, a command line or JSON): a library that
    compares its arguments by identity instead of equality treats it differently"""
    t = ''.join(list(s))
    return t


def cps(s: str):
    return [ord(c) for c in s]


def uncps(a):
    return ''.join(chr(c) for c in a)


def parse_args(argv=None):
    import argparse
    ap = argparse.ArgumentParser()
    ap.add_argument('--tier', default=os.environ.get('VERIF_TIER', 'quick'), choices=['quick', 'thorough'])
    ap.add_argument('--replay', default=None, help='re-run the case stored in a replay file')
    ap.add_argument('--seed', type=int, default=None)
    a = ap.parse_args(argv)
    if a.replay:
        os.environ['VERIF_REPLAY_MODE'] = '1'
    if a.seed is None:
        a.seed = seed_from_env()
    if a.replay:
        with open(a.replay, encoding='utf-8') as f:
            a.replay_case = json.load(f)
    else:
        a.replay_case = None
    return a
