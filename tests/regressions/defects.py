#!/venv/bin/python
"""Minimal demonstrations of the defects found in the design round (DESIGN.md section 0).

Each function returns (holds, detail).  `holds` is True when the behaviour the property asks for
is observed.  Run:  defects.py [D1 D2 ...]   -> prints one line per defect, exit 1 if any fails.
These are *demonstrations* used to validate `fix:` commits; the registered checks find the same
defects through the specification (see known_findings.json, entries with status "fixed").
"""
import os
import sys
import tempfile
import warnings

warnings.simplefilter('ignore')
import kernpy as kp  # noqa: E402


def D1():
    d, e = kp.loads('**kern\n4.c\n*-\n')
    out = kp.dumps(d)
    d2, e2 = kp.loads(out)
    return out == '**kern\n4.c\n*-\n' and kp.dumps(d2) == out, repr(out)


def D2():
    d, e = kp.loads('**kern\t**text\n4c\t"hi\n4d\tyo"\n*-\t*-\n')
    shape = [len(s) for s in d.tree.stages]
    return shape == [1, 2, 2, 2, 2], str(shape)


def D3():
    d, e = kp.loads('**kern\n4cL 4e 4g\n*-\n')
    out = kp.dumps(d, encoding=kp.Encoding.bKern)
    return out == '**bkern\n4c 4e 4g\n*-\n', repr(out)


def D4():
    d, e = kp.loads('**kern\n=1\n4c\n=2\n4d\n=3\n4e\n*-\n')
    out = kp.dumps(d, from_measure=2, to_measure=2)
    return '4e' not in out and '4d' in out, repr(out)


def D5():
    C = kp.TokenCategory
    ok = C.is_child(child=C.PITCH, parent=C.NOTE_REST) and C.children(C.NOTE) == {C.PITCH, C.DECORATION, C.ALTERATION}
    return ok, f'is_child(PITCH, NOTE_REST)={C.is_child(child=C.PITCH, parent=C.NOTE_REST)} children(NOTE)={C.children(C.NOTE)}'


def D6():
    d, e = kp.loads('**kern\nU4c\n4d\n4e\n*-\n')
    return [(x.line, x.encoding) for x in e] == [(2, 'U4c')], str([(x.line, x.encoding) for x in e])


def D8():
    d, e = kp.loads('**kern\n4c\n\n\nU4c\n*-\n')
    return [(x.line, x.encoding) for x in e] == [(5, 'U4c')], str([(x.line, x.encoding) for x in e])


def D9():
    from kernpy.core.pitch_models import HumdrumPitchImporter, HumdrumPitchExporter
    p = HumdrumPitchImporter().import_pitch('cc#')
    ex = HumdrumPitchExporter()
    a = ex.export_pitch(p)
    b = ex.export_pitch(p)
    return a == b == 'cc#' and p.name == 'C+', f'{a!r} {b!r} {p.name!r}'


def D10():
    d, e = kp.loads('**kern\t**mxhm\n=1\t=1\n4c\tC7\n*-\t*-\n')
    toks = [n.token for n in d.tree.stages[2]] + [n.token for n in d.tree.stages[3]]
    cats = [t.category.name for t in toks]
    return cats == ['BARLINES', 'BARLINES', 'NOTE_REST', 'HARMONY'], str(cats)


def D11():
    from kernpy.core import kern_to_ekern
    with tempfile.TemporaryDirectory() as t:
        src = os.path.join(t, 'a.krn')
        dst = os.path.join(t, 'a.ekrn')
        text = '**kern\n*clefG2\n=1\n4c\n=\n*-\n'
        open(src, 'w').write(text)
        kern_to_ekern(src, dst)
        got = open(dst).read()
    d, _ = kp.loads(text)
    want = kp.dumps(d, spine_types=['**kern'], include=kp.BEKERN_CATEGORIES, encoding=kp.Encoding.eKern)
    return got == want, repr(got)


def D12():
    d, e = kp.loads('**kern\t**text\n4c\tla\n*-\t*-\n')
    ek = kp.dumps(d, encoding=kp.Encoding.eKern)
    d2, e2 = kp.loads(kp.get_kern_from_ekern(ek))
    ek2 = kp.dumps(d2, encoding=kp.Encoding.eKern)
    return ek2 == ek, repr(ek2)


def D17():
    try:
        doc, idx = kp.concat(['**kern\n*clefG2', '=1\n4c\n=2\n4d', '=3\n4e\n*-'], separator='\n')
    except Exception as ex:  # noqa
        return False, repr(ex)
    return idx[0] == (0, 0) and idx[-1][1] == doc.measures_count(), str(idx)


def D13():
    d, e = kp.loads('**kern\n*clefF4\n4En\n4E#X\n*-\n')
    out = kp.dumps(d, encoding=kp.Encoding.agnosticKern)
    return out == '**akern\n*clefF4\n4ccn\n4cc#X\n*-\n', repr(out)


def D19():
    d, e = kp.loads('**kern\n*clefG2\n4c#\n*-\n')
    try:
        out = kp.dumps(d, encoding=kp.Encoding.agnosticKern, exclude=[kp.TokenCategory.PITCH])
    except Exception as ex:  # noqa
        return False, repr(ex)
    return out == '**akern\n*clefG2\n4#\n*-\n', repr(out)


def D21():
    d, e = kp.loads('**kern\t**text\n4c\ta\x85b\n4d\tc\u2028d\n*-\t*-\n')
    shape = [len(s) for s in d.tree.stages]
    return shape == [1, 2, 2, 2, 2], str(shape)


ALL = ['D21', 'D13', 'D19', 'D1', 'D2', 'D3', 'D4', 'D5', 'D6', 'D8', 'D9', 'D10', 'D11', 'D12', 'D17']

if __name__ == '__main__':
    names = sys.argv[1:] or ALL
    bad = 0
    for n in names:
        try:
            ok, detail = globals()[n]()
        except Exception as ex:  # noqa
            ok, detail = False, 'raised ' + repr(ex)
        print(f'{n}: {"holds" if ok else "DEFECT"}  {detail}')
        bad += (not ok)
    sys.exit(1 if bad else 0)
