SPECIFICATION MCSpec
CONSTANTS
  MaxLines = 5
  MaxLive = 3
  HeaderRows <- HR1
  Lean = FALSE
  Ext = TRUE
CONSTRAINT Emit
INVARIANT StagePerLine
INVARIANT NodePerCell
INVARIANT SurplusRejects
INVARIANT InvParent
INVARIANT InvHeader
INVARIANT InvComments
INVARIANT InvLive
INVARIANT InvMeasures
INVARIANT InvSignatures
INVARIANT InvClosed
INVARIANT ListingOrderOK
INVARIANT Conserve
INVARIANT ProjectionLaw
INVARIANT PartitionLaw
CHECK_DEADLOCK FALSE
