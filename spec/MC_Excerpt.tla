----------------------------- MODULE MC_Excerpt -----------------------------
(***************************************************************************)
(* C08 on the model: the requirement is satisfiable, and what an excerpt    *)
(* must look like.  Phase 1 generates every CORE **kern score of a bounded   *)
(* instance (signatures only before the first measure, no barline while a   *)
(* split is open).  At a closed score a measure range (a, b) is chosen and  *)
(* the REFERENCE EXCERPT is computed from the state: a header line for the  *)
(* spines alive at the start of measure a, one line per signature class in  *)
(* force there, the body lines of measures a..b, and a terminator line.     *)
(* Phase 2 resets the row machine and feeds it exactly those lines, with    *)
(* the SAME actions Header / Row.  TLC checks that the machine never gets   *)
(* stuck on them, ends with every spine terminated, and that every note of  *)
(* the excerpt is governed by the clef / key / time signature it had in the *)
(* full score.                                                              *)
(***************************************************************************)
EXTENDS ExcerptImpl, TLC
CONSTANTS MaxLines, MaxLive,
          UseImpl,      \* FALSE: phase 2 is fed the REFERENCE excerpt; TRUE: the excerpt the implementation's algorithm produces (ExcerptImpl)
          EqualKinds    \* TRUE: a signature line has the same kind of signature in every spine (core of the core; FALSE explores 'unequal_sig_kinds')
VARIABLES phase, pending, want, nfed
xVars == <<stages, live, gtail, mstarts, lineno, errs, status, phase, pending, want, nfed>>

NoteC == [k |-> "note", t |-> <<52, 99>>, n |-> [s0 |-> <<>>, s1 |-> <<>>, s2 |-> <<>>, s3 |-> <<>>, dur |-> << <<52>> >>, p |-> <<99>>, rest |-> FALSE, acc |-> <<>>]]
NullC == [k |-> "null", t |-> <<DOT>>]
NulliC == [k |-> "nulli", t |-> <<STAR>>]
ClefG == [k |-> "clef", t |-> <<42, 99, 108, 101, 102, 71, 50>>]
ClefF == [k |-> "clef", t |-> <<42, 99, 108, 101, 102, 70, 52>>]
TimeC == [k |-> "timesig", t |-> <<42, 77, 52, 47, 52>>]
BarC == [k |-> "bar", t |-> <<EQ>>, bar |-> [dbl |-> FALSE, num |-> <<>>, ab |-> <<>>, hid |-> FALSE, typ |-> <<>>, ferm |-> FALSE, tail |-> <<>>]]
SplitC == [k |-> "split", t |-> <<STAR, 94>>]
JoinC == [k |-> "join", t |-> <<STAR, 118>>]
TermC == [k |-> "term", t |-> <<STAR, MINUS>>]
HdrC == [k |-> "hdr", t |-> HKern]
N == Len(live)
NoSplitOpen == \A i, j \in 1..N : i # j => At(live[i]).hdr # At(live[j]).hdr
Rows(S) == [1..N -> S]

(* ------------------------------ phase 1: core scores --------------------- *)
Gen ==
  /\ phase = 1 /\ Len(stages) - 1 < MaxLines
  /\ \/ \E n \in 1..2 : Header([i \in 1..n |-> HdrC])
     \/ /\ status = "body"
        /\ \/ (mstarts = <<>> /\ \E S \in (IF EqualKinds THEN {{ClefG, ClefF}, {TimeC}} ELSE {{ClefG, ClefF, TimeC}}) : \E cs \in Rows(S) : Row(cs))   \* signatures: before the first measure, in every spine
           \/ \E cs \in Rows({NoteC, NullC}) : (\E i \in 1..N : cs[i] = NoteC) /\ Row(cs)
           \/ (NoSplitOpen /\ Row([i \in 1..N |-> BarC]))                                             \* no barline inside a split
           \* splits only inside a measure (a measure that starts on an operator line or inside a split is the explored class)
           \/ (mstarts # <<>> /\ NoSplitOpen /\ N < MaxLive /\ \E j \in 1..N : Row([i \in 1..N |-> IF i = j THEN SplitC ELSE NulliC]))
           \/ (\E j \in 1..(N - 1) : At(live[j]).hdr = At(live[j + 1]).hdr /\ Row([i \in 1..N |-> IF i \in {j, j + 1} THEN JoinC ELSE NulliC]))
           \/ (NoSplitOpen /\ Row([i \in 1..N |-> TermC]))
  /\ UNCHANGED <<phase, pending, want, nfed>>

(* ------------------------- the reference excerpt ------------------------- *)
SigKinds == <<"clef", "key", "time", "meter">>
SigPtr(n, kind) == CASE kind = "clef" -> n.sig.clef [] kind = "key" -> n.sig.key [] kind = "time" -> n.sig.time [] kind = "meter" -> n.sig.meter
RefExcerpt(a, b) ==
  LET fs == RangeFirst(a)  ls == RangeLast(b)  first == stages[fs]
      hdr == << [ev |-> "header", cells |-> [i \in 1..Len(first) |-> HdrC]] >>
      sigline(kind) == IF \E i \in 1..Len(first) : SigPtr(first[i], kind) # NoPtr
                       THEN << [ev |-> "row", cells |-> [i \in 1..Len(first) |-> IF SigPtr(first[i], kind) = NoPtr THEN NulliC ELSE At(SigPtr(first[i], kind)).cell]] >>
                       ELSE <<>>
      sigs == sigline("clef") \o sigline("key") \o sigline("time") \o sigline("meter")
      body == [s \in fs..ls |-> [ev |-> "row", cells |-> [i \in 1..Len(stages[s]) |-> stages[s][i].cell]]]
      bodyseq == [j \in 1..(ls - fs + 1) |-> body[fs + j - 1]]
      after == Len(ContFrom(ls, 1))
      term == IF after = 0 THEN <<>> ELSE << [ev |-> "row", cells |-> [i \in 1..after |-> TermC]] >>
  IN hdr \o sigs \o bodyseq \o term
GovOf(a, b) ==
  LET fs == RangeFirst(a)  ls == RangeLast(b)
      ptrs == Flat([j \in 1..(ls - fs + 1) |-> SelectSeq([i \in 1..Len(stages[fs + j - 1]) |-> <<fs + j - 1, i>>], LAMBDA q : At(q).cell.k = "note")])
  IN [j \in 1..Len(ptrs) |-> LET n == At(ptrs[j]) IN <<SigTextAt(n.sig.clef), SigTextAt(n.sig.key), SigTextAt(n.sig.time)>>]
\* the excerpt the implementation's algorithm gives for the same range, as lines of the same vocabulary (cells recognised by their text)
Vocabulary == {NoteC, NullC, NulliC, ClefG, ClefF, TimeC, BarC, SplitC, JoinC, TermC, HdrC}
CellOfText(t) == IF \E c \in Vocabulary : c.t = t THEN CHOOSE c \in Vocabulary : c.t = t ELSE [k |-> "err", t |-> t]
ImplLines(a, b) ==
  LET g == ImplExcerpt(a, TRUE, b, DefaultOpts).grid IN
  [r \in 1..Len(g) |-> [ev |-> IF \A i \in 1..Len(g[r]) : CellOfText(g[r][i]).k = "hdr" THEN "header" ELSE "row",
                         cells |-> [i \in 1..Len(g[r]) |-> CellOfText(g[r][i])]]]
\* choose a range of a closed score and start over on its reference excerpt
Cut ==
  /\ phase = 1 /\ status = "closed" /\ M >= 1
  /\ \E a \in 1..M : \E b \in a..M :
        /\ (UseImpl => ImplExcerpt(a, TRUE, b, DefaultOpts).ok)
        /\ pending' = (IF UseImpl THEN ImplLines(a, b) ELSE RefExcerpt(a, b)) /\ want' = GovOf(a, b)
  /\ stages' = << <<RootNode>> >> /\ live' = <<>> /\ gtail' = <<1, 1>> /\ mstarts' = <<>> /\ lineno' = 1 /\ errs' = <<>> /\ status' = "pre"
  /\ phase' = 2 /\ nfed' = 0

(* ------------------------------ phase 2: recognise ----------------------- *)
FeedStep ==
  /\ phase = 2 /\ pending # <<>>
  /\ LET e == Head(pending) IN IF e.ev = "header" THEN Header(e.cells) ELSE Row(e.cells)
  /\ pending' = Tail(pending) /\ nfed' = nfed + 1 /\ UNCHANGED <<phase, want>>
Init == SpInit /\ phase = 1 /\ pending = <<>> /\ want = <<>> /\ nfed = 0
Next == Gen \/ Cut \/ FeedStep
Spec == Init /\ [][Next]_xVars

NeverStuck == (phase = 2 /\ pending # <<>>) => ENABLED FeedStep              \* header first, cell counts consistent with the operators
EndsClosed == (phase = 2 /\ pending = <<>>) => status = "closed"             \* every spine terminated
SameGoverning == (phase = 2 /\ pending = <<>>) => NotesGoverning = want       \* every note under the clef / key / time of the full score
ExcerptsExplored == TRUE
\* the implementation's algorithm never raises on a core score ...
ImplNeverRaises == (UseImpl /\ phase = 1 /\ status = "closed") => \A a \in 1..M : \A b \in a..M : ImplExcerpt(a, TRUE, b, DefaultOpts).ok
\* ... and gives the reference excerpt, line for line (so NeverStuck / EndsClosed / SameGoverning hold for what the code prints)
\* (the order of the signature lines is free in Humdrum: the reference is taken with the kinds in the order of their first appearance,
\*  which is the order the implementation prints them in)
RefKind(k) == CASE k = "clef" -> "clef" [] k = "keysig" -> "key" [] k = "timesig" -> "time" [] k = "meter" -> "meter"
RefGrid(a, b) ==
  LET e == RefExcerpt(a, b)  fs == RangeFirst(a)  first == stages[fs]
      ks == KindsInOrder(<<fs, 1>>)
      nsig == Cardinality({k \in {"clef", "key", "time", "meter"} : \E i \in 1..Len(first) : SigPtr(first[i], k) # NoPtr})
      sigrow(k) == [i \in 1..Len(first) |-> IF SigPtr(first[i], RefKind(k)) = NoPtr THEN <<STAR>> ELSE At(SigPtr(first[i], RefKind(k))).cell.t]
      textrow(r) == [i \in 1..Len(e[r].cells) |-> e[r].cells[i].t]
  IN <<textrow(1)>> \o [j \in 1..Len(ks) |-> sigrow(ks[j])] \o [r \in 1..(Len(e) - 1 - nsig) |-> textrow(r + 1 + nsig)]
ImplIsReference == (UseImpl /\ phase = 1 /\ status = "closed") => \A a \in 1..M : \A b \in a..M : ImplExcerpt(a, TRUE, b, DefaultOpts).grid = RefGrid(a, b)
=============================================================================
