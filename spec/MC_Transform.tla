---------------------------- MODULE MC_Transform ----------------------------
(* C15 on the model: transposition of every closed document of the bounded importer machine by a family of intervals. *)
EXTENDS MC_SpinePaths, Transform
SomeIntervals == {<<"P", 1>>, <<"M", 2>>, <<"m", 3>>, <<"P", 5>>, <<"A", 4>>, <<"d", 7>>, <<"P", 8>>, <<"dd", 2>>}
SameExceptPitch(n, m) == /\ m.par = n.par /\ m.hdr = n.hdr /\ m.sig = n.sig /\ m.lastop = n.lastop /\ m.cell.k = n.cell.k
                         /\ IF n.cell.k = "note" /\ n.hdr # NoPtr /\ TypeOf(n) = HKern
                            THEN /\ m.cell.n.dur = n.cell.n.dur /\ m.cell.n.rest = n.cell.n.rest
                                 /\ Written(m.cell.n) = Written(n.cell.n) /\ m.cell.t = NoteText(m.cell.n)
                            ELSE m.cell = n.cell
OnlyPitchesMove == Closed => \A iv \in SomeIntervals : \A up \in BOOLEAN :
                     LET ts == TransposedStages(iv, up) IN
                     /\ Len(ts) = Len(stages)
                     /\ \A s \in 1..Len(stages) : Len(ts[s]) = Len(stages[s]) /\ \A i \in 1..Len(stages[s]) : SameExceptPitch(stages[s][i], ts[s][i])
RoundTripOnModel == Closed => \A iv \in SomeIntervals : \A up \in BOOLEAN :
                     AllSpellable(iv, up) => TransposedOf(TransposedStages(iv, up), iv, ~up) = stages
UnisonIsIdentity == Closed => TransposedStages(<<"P", 1>>, TRUE) = stages
SameGridShape == Closed => \A iv \in SomeIntervals :
                     LET g == TransposedGrid(iv, TRUE, DefaultOpts)  h == ExportGrid(DefaultOpts) IN
                     Len(g) = Len(h) /\ \A r \in 1..Len(g) : Len(g[r]) = Len(h[r])
\* C19 on the model: cut a closed kern-only score before any subset of its barline rows
BarStages == {s \in 3..Len(stages) : IsSpineStage(s) /\ stages[s][1].cell.k = "bar"}
CutSets == SUBSET {s - 1 : s \in BarStages}                         \* a cut AFTER stage s-1 = before the barline row s
EndsOf(cuts) == SetToSortSeq(cuts \cup {Len(stages)}, <)
ConcatLaw == (Closed /\ KernOnly /\ M >= 1) => \A cuts \in CutSets :
               LET ends == EndsOf(cuts)  pairs == ConcatPairs(ends) IN
               /\ \A i \in 1..(Len(pairs) - 1) : pairs[i + 1][1] = pairs[i][2] + 1                       \* consecutive
               /\ pairs[Len(pairs)][2] = M                                                             \* the last 'to' is the measure count
               /\ \A i \in 1..Len(pairs) : PairData(pairs[i], DefaultOpts) = FragmentDataLines(ends, i, DefaultOpts)
=============================================================================
