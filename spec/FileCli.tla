------------------------------- MODULE FileCli -------------------------------
(***************************************************************************)
(* A small directory tree under dump / load and the two command-line       *)
(* converters (property C20).  fs maps every path of a fixed universe to   *)
(* the LABEL of its content or to ABSENT.  Labels name contents up to the   *)
(* API: K1, K2 kern texts; E1, E2 = what the API produces for them as eKern *)
(* (dumps of loads(K) with the kern spines, the BEKERN categories, eKern); *)
(* N1, N2 = get_kern_from_ekern of E1, E2; D1 = dumps(loads(K1)); KBAD a kern *)
(* whose import reports errors, T any other text.  The harness maps labels  *)
(* to bytes with the in-memory API only, never with the code under test.   *)
(***************************************************************************)
EXTENDS Naturals, Sequences, FiniteSets, TLC

ABSENT == "-"
ERR == "ERR"
\* path universe: <<directory, stem, suffix>>
Dirs == {"", "sub", "new/deep"}
Stems == {"a", "b", "c", "d", "e", "out", "f", "x"}
Sufs == {"krn", "kern", "ekrn", "ekern", "txt"}
Paths == Dirs \X Stems \X Sufs
KernSufs == {"krn", "kern"}
EkernSufs == {"ekrn", "ekern"}
Under(d, root, rec) == d = root \/ (rec /\ root = "" /\ d # "")      \* sub-directories are searched only recursively

\* the content algebra
K2E(c) == CASE c \in {"K1", "N1", "D1"} -> "E1" [] c \in {"K2", "N2"} -> "E2" [] c = "KBAD" -> ERR [] OTHER -> ERR
E2K(c) == CASE c = "E1" -> "N1" [] c = "E2" -> "N2" [] OTHER -> ERR
ASSUME RoundTripIsIdentity == \A c \in {"K1", "K2", "D1", "N1", "N2"} : K2E(E2K(K2E(c))) = K2E(c)
ASSUME Idempotent == \A c \in {"K1", "K2"} : E2K(K2E(E2K(K2E(c)))) = E2K(K2E(c))

VARIABLES fs, last          \* last: the last action, [act, targets, dir, rec]
fcVars == <<fs, last>>
NoAct == [act |-> "none", targets |-> {}, dir |-> "", rec |-> FALSE]
Present(p) == fs[p] # ABSENT
WithSuf(p, s) == <<p[1], p[2], s>>

\* single-file conversions: output next to the input (suffix swapped) unless an output path is given
K2EFile(p, hasOut, out) ==
  /\ Present(p) /\ p[3] \in KernSufs
  /\ LET tgt == IF hasOut THEN out ELSE WithSuf(p, "ekrn")  c == K2E(fs[p]) IN
     /\ fs' = IF c = ERR THEN fs ELSE [fs EXCEPT ![tgt] = c]            \* an input with import errors is not converted
     /\ last' = [act |-> "k2e_file", targets |-> {tgt}, dir |-> p[1], rec |-> FALSE]
E2KFile(p, hasOut, out) ==
  /\ Present(p) /\ p[3] \in EkernSufs
  /\ LET tgt == IF hasOut THEN out ELSE WithSuf(p, "krn")  c == E2K(fs[p]) IN
     /\ fs' = IF c = ERR THEN fs ELSE [fs EXCEPT ![tgt] = c]
     /\ last' = [act |-> "e2k_file", targets |-> {tgt}, dir |-> p[1], rec |-> FALSE]
\* directory conversions: every matching file in the directory (and below it when recursive); a failing file does not stop the run.
\* when x.krn and x.kern are both present the .kern file is converted last and wins
InScope(root, rec, sufs) == {p \in Paths : Present(p) /\ p[3] \in sufs /\ Under(p[1], root, rec)}
K2EDir(root, rec) ==
  LET src == InScope(root, rec, KernSufs)
      winner(t) == IF WithSuf(t, "kern") \in src /\ K2E(fs[WithSuf(t, "kern")]) # ERR THEN WithSuf(t, "kern")
                   ELSE IF WithSuf(t, "krn") \in src /\ K2E(fs[WithSuf(t, "krn")]) # ERR THEN WithSuf(t, "krn") ELSE t
      tgts == {WithSuf(p, "ekrn") : p \in {q \in src : K2E(fs[q]) # ERR}} IN
  /\ fs' = [p \in Paths |-> IF p \in tgts THEN K2E(fs[winner(p)]) ELSE fs[p]]
  /\ last' = [act |-> "k2e_dir", targets |-> tgts, dir |-> root, rec |-> rec]
E2KDir(root, rec) ==
  LET src == InScope(root, rec, EkernSufs)
      winner(t) == IF WithSuf(t, "ekern") \in src /\ E2K(fs[WithSuf(t, "ekern")]) # ERR THEN WithSuf(t, "ekern")
                   ELSE IF WithSuf(t, "ekrn") \in src /\ E2K(fs[WithSuf(t, "ekrn")]) # ERR THEN WithSuf(t, "ekrn") ELSE t
      tgts == {WithSuf(p, "krn") : p \in {q \in src : E2K(fs[q]) # ERR}} IN
  /\ fs' = [p \in Paths |-> IF p \in tgts THEN E2K(fs[winner(p)]) ELSE fs[p]]
  /\ last' = [act |-> "e2k_dir", targets |-> tgts, dir |-> root, rec |-> rec]
\* dump writes dumps(doc) and creates the missing directories
Dump(p) == /\ fs' = [fs EXCEPT ![p] = "D1"]
           /\ last' = [act |-> "dump", targets |-> {p}, dir |-> p[1], rec |-> FALSE]

\* dump with every option given: writes exactly what dumps returns for the same options (label X1)
DumpOpts(p) == /\ fs' = [fs EXCEPT ![p] = "X1"]
               /\ last' = [act |-> "dump_opts", targets |-> {p}, dir |-> p[1], rec |-> FALSE]

\* dump with a selection that keeps nothing (a spine type the document does not have): dumps returns the EMPTY string and the file
\* holds exactly that (label Z) - also when it replaces a longer file
DumpEmpty(p) == /\ fs' = [fs EXCEPT ![p] = "Z"]
                /\ last' = [act |-> "dump_empty", targets |-> {p}, dir |-> p[1], rec |-> FALSE]

\* the caller removes the directory of p with everything in it and dumps there again: the directories are created again
\* (whatever was written there before - the library must not remember that it once created them)
Redump(p) == /\ fs' = [q \in Paths |-> IF q = p THEN "D1" ELSE IF q[1] = p[1] THEN ABSENT ELSE fs[q]]
             /\ last' = [act |-> "redump", targets |-> {q \in Paths : q[1] = p[1]}, dir |-> p[1], rec |-> FALSE]

(* ------------------------------- properties ----------------------------- *)
OnlyTargetsChange == [][\A p \in Paths : fs'[p] # fs[p] => p \in last'.targets]_fcVars
NonRecursiveStaysShallow == [][(last'.act \in {"k2e_dir", "e2k_dir"} /\ ~last'.rec) => \A p \in last'.targets : p[1] = last'.dir]_fcVars
SuffixRule == [][/\ last'.act = "k2e_dir" => \A p \in last'.targets : p[3] = "ekrn"
                 /\ last'.act = "e2k_dir" => \A p \in last'.targets : p[3] = "krn"]_fcVars
InputsSurvive == [][\A p \in Paths : (Present(p) /\ p \notin last'.targets) => fs'[p] = fs[p]]_fcVars
ConvertedIsApiValue == [][last'.act = "k2e_dir" => \A p \in last'.targets : fs'[p] \in {"E1", "E2"}]_fcVars
=============================================================================
