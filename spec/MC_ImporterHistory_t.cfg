SPECIFICATION Spec
CONSTANTS
  MaxLen = 5
  Types <- KernTypes
CONSTRAINT Emit
INVARIANT OutcomeIndependent
INVARIANT NothingPending
INVARIANT NonKernNeverFails
PROPERTY OnlyLastMatters
CHECK_DEADLOCK FALSE
