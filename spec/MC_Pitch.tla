------------------------------ MODULE MC_Pitch ------------------------------
(* C09 on the model: the base-40 design against the letter/semitone model over the full grid            *)
(* 7 letters x 5 alterations x octaves 0..8 x 40 intervals x 2 directions = 25,200 states.              *)
EXTENDS Pitch
VARIABLES p, iv, up
Init == /\ p \in [l : Letters, a : -2..2, o : 0..8] /\ iv \in Intervals /\ up \in BOOLEAN
Next == UNCHANGED <<p, iv, up>>
Agree == Spellable(RefT(p, iv, up)) => T40(p, iv, up) = RefT(p, iv, up)
LetterAndSound == LET q == RefT(p, iv, up) s == IF up THEN 1 ELSE -1 IN
                  /\ Dia(q) = Dia(p) + s * Steps(iv)          \* letter moved by the diatonic size
                  /\ Midi(q) = Midi(p) + s * Semis(iv)        \* sounding pitch moved by the semitone size
Inverse == LET q == T40(p, iv, up) IN
           /\ Spellable(RefT(p, iv, up)) => RefT(RefT(p, iv, up), iv, ~up) = p
           /\ q.l # -1 => T40(q, iv, ~up) = p                 \* whenever the table has a name for the result
Unison == T40(p, <<"P", 1>>, up) = p /\ RefT(p, <<"P", 1>>, up) = p
Octave == LET q == T40(p, <<"P", 8>>, up) IN q.l = p.l /\ q.a = p.a /\ q.o = p.o + (IF up THEN 1 ELSE -1)
FourthFifth == LET q == T40(p, <<"P", 4>>, up) IN q.l # -1 => T40(q, <<"P", 5>>, up) = T40(p, <<"P", 8>>, up)
\* constant-level facts about the interval table: checked once, as assumptions of the instance
ASSUME Count40 == Cardinality(Intervals) = 40 /\ Cardinality(IvNames) = 40
ASSUME NumbersDistinct == \A i, j \in Intervals : I40(i) = I40(j) => i = j
SpellRoundTrip == Unspell(Spell(p)) = p /\ Unspell(Spell(RefT(p, iv, up))) = RefT(p, iv, up)
=============================================================================
