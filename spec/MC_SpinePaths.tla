--------------------------- MODULE MC_SpinePaths ---------------------------
(***************************************************************************)
(* Bounded instance of the row machine: EVERY interleaving of header,      *)
(* data, barline, interpretation, field-comment, global-comment, spine-    *)
(* operator (split / join / terminate, several per line) and surplus lines *)
(* up to MaxLines lines and MaxLive live paths, over a small alphabet of    *)
(* concrete cells.  TLC checks the C02 invariants in every state and the   *)
(* document-level laws (C03, C06, C07, C17 on the model) in every closed   *)
(* state, and prints every complete behaviour so that the harness can feed *)
(* it to the real importer (spec -> code binding).                         *)
(***************************************************************************)
EXTENDS Queries, Json
CONSTANTS MaxLines, MaxLive, HeaderRows,
          Lean,         \* TRUE: operator lines and one kind of data line only (deep spine-operator layouts)
          Ext           \* TRUE: the extended machine: add-spine operators, the line naming the new spine, a second section, '*x'
VARIABLE fed                                  \* history: the line events fed so far
mcVars == <<stages, live, gtail, mstarts, lineno, errs, status, fed>>
HR1 == {<<HKern>>}
HR2 == {<<HKern>>, <<HKern, HText>>}                       \* header rows of the quick instance
HR3 == {<<HKern>>, <<HKern, HText>>, <<HKern, HKern>>, <<HKern, HText, HKern>>}

(* ------------------------- the concrete cell alphabet ------------------- *)
NoteC == [k |-> "note", t |-> <<59, 52, 46, 99, 35, 76>>,                             \* ;4.c#L
          n |-> [s0 |-> << <<59>> >>, s1 |-> <<>>, s2 |-> <<>>, s3 |-> << <<76>> >>, dur |-> << <<52>>, <<46>> >>, p |-> <<99>>, rest |-> FALSE, acc |-> <<35>>]]
TextC == [k |-> "text", t |-> <<108, 97>>]                                            \* la
NullC == [k |-> "null", t |-> <<DOT>>]
NulliC == [k |-> "nulli", t |-> <<STAR>>]
ClefC == [k |-> "clef", t |-> <<42, 99, 108, 101, 102, 70, 52>>]                      \* *clefF4
BarC == [k |-> "bar", t |-> <<EQ>>, bar |-> [dbl |-> FALSE, num |-> <<>>, ab |-> <<>>, hid |-> FALSE, typ |-> <<>>, ferm |-> FALSE, tail |-> <<>>]]
FcomC == [k |-> "fcom", t |-> <<BANG, 120>>]                                          \* !x
GcomC == [k |-> "gcom", t |-> <<BANG, BANG, 103>>]                                    \* !!g
SplitC == [k |-> "split", t |-> <<STAR, 94>>]
JoinC == [k |-> "join", t |-> <<STAR, 118>>]
TermC == [k |-> "term", t |-> <<STAR, MINUS>>]
HdrC(t) == [k |-> "hdr", t |-> t]

LiveType(i) == TypeOf(At(live[i]))
N == Len(live)
DataChoices(i) == IF LiveType(i) \in KernLike THEN {NoteC, NullC} ELSE {TextC, NullC}
InterpChoices(i) == IF LiveType(i) \in KernLike THEN {NulliC, ClefC} ELSE {NulliC}
AddC == [k |-> "add", t |-> <<STAR, 43>>]
ExchC == [k |-> "exch", t |-> <<STAR, 120>>]
OpChoices(i) == {NulliC, SplitC, JoinC, TermC} \cup (IF Ext THEN {AddC} ELSE {})
RowsOf(Ch(_)) == {cs \in [1..N -> UNION {Ch(i) : i \in 1..N}] : \A i \in 1..N : cs[i] \in Ch(i)}
\* a join run (adjacent joins of one spine) must have at least two members
WellFormedOps(cs) ==
  /\ \E i \in 1..N : cs[i].k \in OpClasses
  /\ \A i \in 1..N : cs[i].k = "join" =>
        \/ (i > 1 /\ cs[i - 1].k = "join" /\ At(live[i - 1]).hdr = At(live[i]).hdr)
        \/ (i < N /\ cs[i + 1].k = "join" /\ At(live[i + 1]).hdr = At(live[i]).hdr)
  /\ Len(NextLive(cs)) <= MaxLive

Feed(e) == fed' = Append(fed, e)
MCInit == SpInit /\ fed = <<>>
MCNext ==
  /\ Len(fed) < MaxLines
  /\ \/ ~Lean /\ Global(GcomC) /\ Feed([ev |-> "global", cell |-> GcomC])
     \/ \E h \in HeaderRows : LET cs == [i \in 1..Len(h) |-> HdrC(h[i])] IN Header(cs) /\ Feed([ev |-> "header", cells |-> cs])
     \/ /\ status = "body"
        /\ \/ ~Lean /\ \E cs \in RowsOf(DataChoices) : Row(cs) /\ Feed([ev |-> "row", cells |-> cs])
           \/ ~Lean /\ \E cs \in RowsOf(InterpChoices) : Row(cs) /\ Feed([ev |-> "row", cells |-> cs])
           \/ ~Lean /\ LET cs == [i \in 1..N |-> BarC] IN Row(cs) /\ Feed([ev |-> "row", cells |-> cs])
           \/ ~Lean /\ LET cs == [i \in 1..N |-> FcomC] IN Row(cs) /\ Feed([ev |-> "row", cells |-> cs])
           \/ Lean /\ LET cs == [i \in 1..N |-> IF LiveType(i) \in KernLike THEN NoteC ELSE TextC] IN
                       (fed[Len(fed)].ev = "header" \/ \E i \in 1..Len(fed[Len(fed)].cells) : fed[Len(fed)].cells[i].k \in OpClasses)   \* no two data lines in a row
                       /\ Row(cs) /\ Feed([ev |-> "row", cells |-> cs])
           \/ \E cs \in RowsOf(OpChoices) : WellFormedOps(cs) /\ Row(cs) /\ Feed([ev |-> "row", cells |-> cs])
           \* the extended machine: the line that names the spine added by '*+' (its second continuation), a line with '*x'
           \/ Ext /\ \E j \in 2..N : /\ At(live[j]).cell.k = "add" /\ live[j - 1] = live[j]
                                      /\ LET cs == [i \in 1..N |-> IF i = j THEN HdrC(HText) ELSE NulliC] IN Row(cs) /\ Feed([ev |-> "row", cells |-> cs])
           \/ Ext /\ N >= 2 /\ LET cs == [i \in 1..N |-> IF i <= 2 THEN ExchC ELSE NulliC] IN Unsupported(cs) /\ Feed([ev |-> "unsupported", cells |-> cs])
           \* a line of ANY kind with one cell too many: data, local comment, barline, interpretation
           \/ ~Lean /\ \E c \in {NullC, FcomC, BarC, NulliC} : LET cs == [i \in 1..(N + 1) |-> c] IN Surplus(cs) /\ Feed([ev |-> "surplus", cells |-> cs])
           \* ... or whose surplus cell is an exclusive interpretation (a spine cannot start out of nowhere)
           \/ ~Lean /\ LET cs == [i \in 1..(N + 1) |-> IF i <= N THEN NulliC ELSE HdrC(HText)] IN Surplus(cs) /\ Feed([ev |-> "surplus", cells |-> cs])
MCNextExt == MCNext \/ (Ext /\ Len(fed) < MaxLines /\ LET cs == <<HdrC(HKern)>> IN Reopen(cs) /\ Feed([ev |-> "header", cells |-> cs]))
MCSpec == MCInit /\ [][MCNextExt]_mcVars

(* ------------------------------ invariants ------------------------------ *)
NonBlank == SelectSeq(fed, LAMBDA e : e.ev \in {"global", "header", "row"})
StagePerLine == Len(stages) = 1 + Len(NonBlank)
NodePerCell == \A r \in 1..Len(NonBlank) : Len(stages[r + 1]) = (IF NonBlank[r].ev = "global" THEN 1 ELSE Len(NonBlank[r].cells))
                                           /\ \A i \in 1..Len(stages[r + 1]) :
                                                 stages[r + 1][i].cell = (IF NonBlank[r].ev = "global" THEN NonBlank[r].cell ELSE NonBlank[r].cells[i])
SurplusRejects == \A j \in 1..Len(fed) : fed[j].ev \in {"surplus", "unsupported"} => (status = "rejected" /\ j = Len(fed))
InvParent == ParentOnSamePath
InvHeader == HeaderIdentity
InvComments == CommentChain
InvLive == LivePathsMatch
InvMeasures == MeasureIndexOK
InvSignatures == GoverningSigOK
InvClosed == ClosedMeansNoLive

(* -------------------- document-level laws (closed states) --------------- *)
Closed == status = "closed"
\* C17: the traversal order is the order the property words; every node once
SingleHeaderLine == Cardinality({s \in 2..Len(stages) : \E i \in 1..Len(stages[s]) : stages[s][i].cell.k = "hdr"}) = 1
ListingOrderOK == Closed => LET d == DfsOrder IN
                    /\ SingleHeaderLine => d = WordedOrder       \* the property's wording speaks of one header line
                    /\ Len(d) = Cardinality(SetOf(d))
                    /\ Len(d) = FoldLeft(LAMBDA a, s : a + Len(stages[s]), 0, [s \in 1..(Len(stages) - 1) |-> s + 1])
\* C03: the default export is the source grid minus global comments and all-null lines, cell for cell
SourceGrid == LET rows == SelectSeq(fed, LAMBDA e : e.ev \in {"header", "row"}) IN
              [r \in 1..Len(rows) |-> [i \in 1..Len(rows[r].cells) |->
                   IF rows[r].cells[i].k = "note" THEN Plain(SingleExt(rows[r].cells[i].n, Cat))        \* notes: their normal form
                   ELSE TokenText(rows[r].cells[i])]]
Conserve == Closed => ExportGrid(DefaultOpts) = SelectSeq(SourceGrid, LAMBDA row : ~RowDropped(row))
\* C06: selecting spine ids is column projection of the full export
SpinedRow(s, o) == LET vis == VisibleNodes(s, o) IN [i \in 1..Len(vis) |-> <<CellView(vis[i], o).t, SpineOf(vis[i])>>]
Project(S) == LET all == [s \in 2..Len(stages) |-> SpinedRow(s, DefaultOpts)]
                  proj == [s \in 2..Len(stages) |-> LET kept == SelectSeq(all[s], LAMBDA c : c[2] \in S) IN [i \in 1..Len(kept) |-> kept[i][1]]]
              IN SelectSeq([j \in 1..(Len(stages) - 1) |-> proj[j + 1]], LAMBDA row : ~RowDropped(row))
AllIds == SetOf(SpineIds)
ProjectionLaw == Closed => \A S \in SUBSET AllIds : ExportGrid([DefaultOpts EXCEPT !.allids = FALSE, !.ids = S]) = Project(S)
\* C05 / C13 on the model: options act independently.  For a family of category selections and encodings:
\*   rendering ALL spines under (cats, enc) and then projecting on the spines S  =  exporting with spine_ids = S
\*   include = all / exclude = nothing is the identity; a filtered note prints a subsequence of the parts it prints unfiltered
OptCats == { Cat, Valid(FALSE, {"CORE", "STRUCTURAL"}, {}), Valid(TRUE, {}, {"DURATION", "BARLINES"}), Valid(TRUE, {}, {"EMPTY", "SIGNATURES", "LYRICS"}),
             Valid(FALSE, {"PITCH", "HEADER", "SPINE_OPERATION", "LYRICS"}, {}) }
OptEncs == {"kern", "ekern", "bekern"}
ProjectOpt(S, o) == LET all == [s \in 2..Len(stages) |-> SpinedRow(s, o)]
                        proj == [s \in 2..Len(stages) |-> LET kept == SelectSeq(all[s], LAMBDA c : c[2] \in S) IN [i \in 1..Len(kept) |-> kept[i][1]]]
                    IN SelectSeq([j \in 1..(Len(stages) - 1) |-> proj[j + 1]], LAMBDA row : ~RowDropped(row))
CommuteLaw == Closed => \A cs \in OptCats : \A en \in OptEncs : \A S \in SUBSET AllIds :
                 LET o == [DefaultOpts EXCEPT !.cats = cs, !.enc = en] IN
                 ExportGrid([o EXCEPT !.allids = FALSE, !.ids = S]) = ProjectOpt(S, o)
FilterIdentity == Closed => \A en \in OptEncs :
                 ExportGrid([DefaultOpts EXCEPT !.enc = en, !.cats = Valid(TRUE, {}, {})]) = ExportGrid([DefaultOpts EXCEPT !.enc = en, !.cats = Valid(FALSE, Cat, {})])
PartsOf(t) == LET a == SplitOn(t, MID) IN SplitOn(a[1], AT) \o Tail(a)
RECURSIVE IsSubseq(_, _)
IsSubseq(xs, ys) == IF xs = <<>> THEN TRUE ELSE IF ys = <<>> THEN FALSE
                    ELSE IF Head(xs) = Head(ys) THEN IsSubseq(Tail(xs), Tail(ys)) ELSE IsSubseq(xs, Tail(ys))
SubsequenceLaw == Closed => \A cs \in OptCats : \A s \in 2..Len(stages) : \A i \in 1..Len(stages[s]) :
                 LET n == stages[s][i]  full == CellView(n, [DefaultOpts EXCEPT !.enc = "ekern"]).t
                     filt == CellView(n, [DefaultOpts EXCEPT !.enc = "ekern", !.cats = cs]).t IN
                 n.hdr # NoPtr => (filt \in Nullish \/ IsSubseq(PartsOf(filt), PartsOf(full)))
\* C18: barlines are detected identically under every spine type: the measure index recomputed with every non-kern spine
\* re-typed to T is the measure index
RetypedCandidate(s, first, T) ==
  \E i \in 1..Len(stages[s]) :
     LET n == stages[s][i]  ty == IF TypeOf(n) \in KernLike THEN TypeOf(n) ELSE T  cat == CatOf(ty, n.cell.k) IN
     /\ n.cell.k \notin OpClasses /\ n.cell.k # "fcom"
     /\ (cat = "BARLINES" \/ (first /\ cat \in CoreCats))
RECURSIVE RetypedScan(_, _, _)
RetypedScan(s, acc, T) ==
  IF s > Len(stages) THEN acc
  ELSE RetypedScan(s + 1, IF IsSpineStage(s) /\ RetypedCandidate(s, acc = <<>>, T) THEN Append(acc, s) ELSE acc, T)
BarlinesSameUnderEveryType == \A T \in {HText, HDynam, HDyn, HHarm, HMxhm, HFing, <<42, 42, 122, 122>>} : RetypedScan(2, <<>>, T) = mstarts
\* C07: single-measure exports partition the data lines of the full export; ranges glue at shared barlines
KernOnly == \A s \in 2..Len(stages) : IsHeaderStage(s) => \A i \in 1..Len(stages[s]) : stages[s][i].cell.t = HKern
PartitionLaw == (Closed /\ KernOnly /\ M >= 1) =>
                  /\ Flat([k \in 1..M |-> DataLines(RangeBody(k, k, DefaultOpts))]) = DataLines(ExportGrid(DefaultOpts))
                  /\ \A a \in 1..M : \A b \in a..M :
                        DataLines(RangeBody(a, b, DefaultOpts)) = Flat([k \in 1..(b - a + 1) |-> DataLines(RangeBody(a + k - 1, a + k - 1, DefaultOpts))])
                  /\ \A a \in 1..M : \A b \in a..M : ValidRange(TRUE, a, TRUE, b)
                  /\ ~ValidRange(TRUE, 1, TRUE, M + 1) /\ ~ValidRange(TRUE, 2, TRUE, 1)

(* ------------------------------- emission ------------------------------- *)
Complete == status \in {"closed", "rejected"}
Emit == IF Complete THEN PrintT("VP" \o ToJson([fed |-> fed, nlive |-> Len(live), m |-> Len(mstarts)])) ELSE TRUE
=============================================================================
