SPECIFICATION Spec
CONSTANTS
  MaxLen = 10
INVARIANT HistoryTracksObject
CONSTRAINT Emit
CHECK_DEADLOCK FALSE
