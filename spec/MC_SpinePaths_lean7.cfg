SPECIFICATION MCSpec
CONSTANTS
  MaxLines = 7
  MaxLive = 3
  HeaderRows <- HR1
  Lean = TRUE
  Ext = FALSE
CONSTRAINT Emit
INVARIANT StagePerLine
INVARIANT NodePerCell
INVARIANT SurplusRejects
INVARIANT InvParent
INVARIANT InvHeader
INVARIANT InvComments
INVARIANT InvLive
INVARIANT InvMeasures
INVARIANT InvSignatures
INVARIANT InvClosed
INVARIANT ListingOrderOK
INVARIANT Conserve
INVARIANT ProjectionLaw
INVARIANT PartitionLaw
CHECK_DEADLOCK FALSE
