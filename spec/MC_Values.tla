----------------------------- MODULE MC_Values -----------------------------
(***************************************************************************)
(* The value-object machine of Values.tla under every short history of     *)
(* calls (exhaustive per part) and under long mixed histories (simulate).  *)
(* TLC checks the laws below on its own state graph and prints every       *)
(* complete history; the harness replays each on REAL StoreCache /         *)
(* BoundingBox / DurationClassical objects and Trace_Values validates what  *)
(* was observed after every call.                                          *)
(***************************************************************************)
EXTENDS Values, SequencesExt, Json
CONSTANTS MaxLen, Parts, MaxPool
VARIABLE hist
vars == <<mem, ncalls, boxes, durs, res, hist>>

BoxArgs == {<<0, 0, 10, 10>>, <<5, -3, 2, 20>>, <<20, 20, 1, 1>>}
DurArgs == {1, 2, 3, 4, 0}
Ratios == {0, 1, 2, 3}
H(op, args) == hist' = Append(hist, [op |-> op, args |-> args])
Init == ValInit /\ hist = <<>>
CacheNext == \E k \in 1..NKeys : Request(k) /\ H("req", <<k>>)
BoxNext == \/ \E a \in BoxArgs : Len(boxes) < MaxPool /\ NewBox(a[1], a[2], a[3], a[4]) /\ H("newbox", a)
           \/ \E i, j \in DOMAIN boxes : Extend(i, j) /\ H("extend", <<i, j>>)
           \/ \E i, j \in DOMAIN boxes : BoxEq(i, j) /\ H("boxeq", <<i, j>>)
DurNext == \/ \E d \in DurArgs : Len(durs) < MaxPool /\ NewDur(d) /\ H("newdur", <<d>>)
           \/ \E i \in DOMAIN durs, r \in Ratios : Len(durs) < MaxPool /\ Modify(i, r) /\ H("modify", <<i, r>>)
           \/ \E i, j \in DOMAIN durs : CmpDur(i, j) /\ H("cmpdur", <<i, j>>)
Next == /\ Len(hist) < MaxLen
        /\ \/ ("cache" \in Parts /\ CacheNext) \/ ("box" \in Parts /\ BoxNext) \/ ("dur" \in Parts /\ DurNext)
Spec == Init /\ [][Next]_vars

(* ---- laws ---- *)
\* a value is computed at most once per request, failed requests store nothing, every stored ordinal is a real invocation
CacheSound == /\ \A k \in 1..NKeys : mem[k] <= ncalls /\ (k \in FailKeys => mem[k] = 0)
              /\ \A k1, k2 \in 1..NKeys : (mem[k1] # 0 /\ mem[k1] = mem[k2]) => k1 = k2
\* once stored, an answer never changes (and the callback is not asked again for it)
CacheStable == [][\A k \in 1..NKeys : mem[k] # 0 => mem'[k] = mem[k]]_vars
CacheHitIsFree == [][\A k \in 1..NKeys : (mem[k] # 0 /\ hist' # hist /\ hist'[Len(hist')] = [op |-> "req", args |-> <<k>>]) => ncalls' = ncalls]_vars
\* boxes only grow; extend reads its argument without changing it; the union is the smallest box containing both
BoxesGrow == [][\A i \in DOMAIN boxes : Contains(boxes'[i], boxes[i])]_vars
ExtendReadsArgument == [][\A i, j \in DOMAIN boxes : (hist' # hist /\ hist'[Len(hist')] = [op |-> "extend", args |-> <<i, j>>] /\ i # j) => boxes'[j] = boxes[j]]_vars
UnionLaws == \A i, j \in DOMAIN boxes : LET u == BoxUnion(boxes[i], boxes[j]) IN
                /\ Contains(u, boxes[i]) /\ Contains(u, boxes[j]) /\ u = BoxUnion(boxes[j], boxes[i]) /\ BoxUnion(u, boxes[j]) = u
\* durations are immutable objects: the pool only grows at the end; everything in it is a valid duration
DursImmutable == [][IsPrefix(durs, durs')]_vars
DursValid == \A i \in DOMAIN durs : ValidDur(durs[i])
Emit == IF Len(hist) = MaxLen THEN PrintT("VP" \o ToJson([hist |-> hist])) ELSE TRUE
=============================================================================
