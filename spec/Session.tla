------------------------------- MODULE Session -------------------------------
(***************************************************************************)
(* A document object under a history of API calls (property C14, and the   *)
(* frame for C15 / C19).  The read-only part of the API is a set of call   *)
(* KINDS; the specification says that a read-only call changes nothing:    *)
(* neither the document (all variables of SpinePaths stay as the import     *)
(* left them) nor the shared defaults, and that its result is a function   *)
(* of the document and the arguments alone (Trace_Session!CallChecks        *)
(* computes it from the state, never from the history).                    *)
(* Here the history machine itself: which histories exist.  `gen` counts    *)
(* document generations: only a re-import starts a new one.                 *)
(***************************************************************************)
EXTENDS Naturals, Sequences
CONSTANTS NCalls,        \* number of read-only call kinds in the harness table (harness/checks/c14.py CALLS)
          MaxLen
VARIABLES hist, generation, touched      \* touched: has any call modified the document?  (never, by specification)
sVars == <<hist, generation, touched>>
SInit == hist = <<>> /\ generation = 1 /\ touched = FALSE
Call(c) == /\ Len(hist) < MaxLen
           /\ hist' = Append(hist, c)
           /\ UNCHANGED <<generation, touched>>           \* read-only: the document and the defaults are unchanged
SNext == \E c \in 1..NCalls : Call(c)
SSpec == SInit /\ [][SNext]_sVars
ReadOnly == [][touched' = touched /\ generation' = generation]_sVars
NeverTouched == ~touched
=============================================================================
