SPECIFICATION Spec
CONSTRAINT Mark
POSTCONDITION Verdict
CHECK_DEADLOCK FALSE
