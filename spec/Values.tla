------------------------------- MODULE Values -------------------------------
(***************************************************************************)
(* Small stateful value classes of kernpy that no listed property covers   *)
(* (growth of the specification; run by bin/extras, never a VIOLATION):    *)
(*                                                                         *)
(*   util/store_cache.py  StoreCache.request    a memo table in front of a *)
(*                                              callback                   *)
(*   core/tokens.py       BoundingBox           extend() mutates the box   *)
(*   core/tokens.py       DurationClassical     modify() yields a NEW      *)
(*                                              duration, comparisons      *)
(*   core/tokens.py       PitchRest             parsing and ordering       *)
(*                                                                         *)
(* The objects live in pools (sequences); an action names the objects it   *)
(* uses by their index in the pool, exactly as the replay does.            *)
(* `res` is what the call returned: [ok : BOOLEAN, v : Seq(Int)]           *)
(* (booleans as 0/1; ok = FALSE means the call raised).                     *)
(***************************************************************************)
EXTENDS Integers, Sequences, FiniteSets, TLC

VARIABLES mem,      \* [Keys -> Nat]: 0 = not in StoreCache.memory, n > 0 = the value stored is the one the n-th callback invocation returned
          ncalls,   \* number of times the callback was invoked
          boxes,    \* Seq([fx, fy, tx, ty]): the BoundingBox objects created so far
          durs,     \* Seq(Nat): the DurationClassical objects created so far
          res       \* result of the last call
valVars == <<mem, ncalls, boxes, durs, res>>

NKeys == 4
FailKeys == {4}                       \* the callback raises for these requests
Ok(v) == [ok |-> TRUE, v |-> v]
Err == [ok |-> FALSE, v |-> <<>>]
B(b) == IF b THEN 1 ELSE 0

ValInit == /\ mem = [k \in 1..NKeys |-> 0] /\ ncalls = 0 /\ boxes = <<>> /\ durs = <<>> /\ res = Ok(<<>>)

(* ------------------------------ StoreCache ------------------------------ *)
\* The callback of the binding returns <<request, ordinal of this invocation>>: a recomputation would be visible in the result.
Request(k) ==
  /\ IF mem[k] # 0 THEN /\ UNCHANGED <<mem, ncalls>> /\ res' = Ok(<<k, mem[k]>>)                 \* hit: the stored value, no invocation
     ELSE IF k \in FailKeys THEN /\ ncalls' = ncalls + 1 /\ UNCHANGED mem /\ res' = Err             \* the callback raises: nothing is stored
     ELSE /\ ncalls' = ncalls + 1 /\ mem' = [mem EXCEPT ![k] = ncalls + 1] /\ res' = Ok(<<k, ncalls + 1>>)
  /\ UNCHANGED <<boxes, durs>>

(* ------------------------------ BoundingBox ----------------------------- *)
Min2(a, b) == IF a <= b THEN a ELSE b
Max2(a, b) == IF a >= b THEN a ELSE b
MkBox(x, y, w, h) == [fx |-> x, fy |-> y, tx |-> x + w, ty |-> y + h]
BoxUnion(p, q) == [fx |-> Min2(p.fx, q.fx), fy |-> Min2(p.fy, q.fy), tx |-> Max2(p.tx, q.tx), ty |-> Max2(p.ty, q.ty)]
XYWH(p) == <<p.fx, p.fy, p.tx - p.fx, p.ty - p.fy>>
Contains(p, q) == p.fx <= q.fx /\ p.fy <= q.fy /\ p.tx >= q.tx /\ p.ty >= q.ty
NewBox(x, y, w, h) == /\ boxes' = Append(boxes, MkBox(x, y, w, h)) /\ res' = Ok(<<x, y, w, h>>) /\ UNCHANGED <<mem, ncalls, durs>>
\* box i grows to the union; box j is only read
Extend(i, j) == /\ i \in DOMAIN boxes /\ j \in DOMAIN boxes
                /\ boxes' = [boxes EXCEPT ![i] = BoxUnion(boxes[i], boxes[j])]
                /\ res' = Ok(XYWH(BoxUnion(boxes[i], boxes[j]))) /\ UNCHANGED <<mem, ncalls, durs>>
BoxEq(i, j) == /\ i \in DOMAIN boxes /\ j \in DOMAIN boxes
               /\ res' = Ok(<<B(boxes[i] = boxes[j]), B(boxes[i] # boxes[j])>>) /\ UNCHANGED <<mem, ncalls, boxes, durs>>

(* --------------------------- DurationClassical -------------------------- *)
ValidDur(d) == d > 0 /\ (d % 2 = 0 \/ d = 1)
NewDur(d) == /\ IF ValidDur(d) THEN durs' = Append(durs, d) /\ res' = Ok(<<d>>) ELSE UNCHANGED durs /\ res' = Err
             /\ UNCHANGED <<mem, ncalls, boxes>>
\* modify() never changes the object it is called on: the product is a NEW duration (or the call raises)
Modify(i, r) == /\ i \in DOMAIN durs
                /\ IF r > 0 /\ ValidDur(durs[i] * r) THEN durs' = Append(durs, durs[i] * r) /\ res' = Ok(<<durs[i] * r>>)
                   ELSE UNCHANGED durs /\ res' = Err
                /\ UNCHANGED <<mem, ncalls, boxes>>
CmpDur(i, j) == /\ i \in DOMAIN durs /\ j \in DOMAIN durs
                /\ LET a == durs[i]  b == durs[j] IN res' = Ok(<<B(a = b), B(a # b), B(a > b), B(a < b), B(a >= b), B(a <= b)>>)
                /\ UNCHANGED <<mem, ncalls, boxes, durs>>

(* -------------------------------- PitchRest ----------------------------- *)
\* texts are sequences of code points; only ASCII letters occur in the binding
IsLowerCp(c) == c >= 97 /\ c <= 122
IsUpperCp(c) == c >= 65 /\ c <= 90
ToLowerCp(c) == IF IsUpperCp(c) THEN c + 32 ELSE c
RestText == <<114>>                                           \* "r"
\* <<kind, letter code point, octave>>: kind 0 = rest, 1 = pitch, 2 = rejected (ValueError)
PRParse(t) ==
  IF t = <<>> THEN <<2, 0, 0>>
  ELSE IF t = RestText THEN <<0, 114, 0>>
  ELSE IF \A i \in DOMAIN t : IsLowerCp(t[i]) THEN <<1, t[1], 4 + (Len(t) - 1)>>      \* 'c' = octave 4, one more per repetition
  ELSE IF \A i \in DOMAIN t : IsUpperCp(t[i]) THEN <<1, ToLowerCp(t[1]), 3 - (Len(t) - 1)>>   \* 'C' = octave 3, one less per repetition
  ELSE <<2, 0, 0>>
PREq(p, q) == IF p[1] = 0 /\ q[1] = 0 THEN TRUE ELSE IF p[1] = 0 \/ q[1] = 0 THEN FALSE ELSE p[2] = q[2] /\ p[3] = q[3]
\* ordering: octave first, then the letter in ALPHABETICAL order (a lowest - what the code and its documentation say); rests do not compare
PRGt(p, q) == p[3] > q[3] \/ (p[3] = q[3] /\ p[2] > q[2])
PRLt(p, q) == p[3] < q[3] \/ (p[3] = q[3] /\ p[2] < q[2])
=============================================================================
