SPECIFICATION Spec
CONSTANTS
  MaxLen = 3
INVARIANT HistoryTracksObject
PROPERTY ReadsArePure
CONSTRAINT Emit
CHECK_DEADLOCK FALSE
