SPECIFICATION Spec
CONSTANTS MaxLen = 6
          Parts = {"cache"}
          MaxPool = 3
INVARIANT CacheSound
INVARIANT UnionLaws
INVARIANT DursValid
PROPERTY CacheStable
PROPERTY CacheHitIsFree
PROPERTY BoxesGrow
PROPERTY ExtendReadsArgument
PROPERTY DursImmutable
CONSTRAINT Emit
CHECK_DEADLOCK FALSE
