---------------------------- MODULE Categories ----------------------------
(***************************************************************************)
(* The token-category forest of kernpy (property C11), transcribed from    *)
(* the DOCUMENTED tree (README.md, "Token categories"), not from the       *)
(* dictionary literal in tokens.py.  `Pre` is that documented rendering:   *)
(* the categories in the order they are printed, each with its depth.      *)
(* Everything else (parents, subtrees, closures, the valid/match algebra)  *)
(* is derived from it, the closure twice and independently.                *)
(***************************************************************************)
EXTENDS Naturals, Sequences, FiniteSets, TLC

Pre == << <<0, "STRUCTURAL">>, <<1, "HEADER">>, <<1, "SPINE_OPERATION">>,
          <<0, "CORE">>, <<1, "NOTE_REST">>, <<2, "DURATION">>, <<2, "NOTE">>, <<3, "PITCH">>,
          <<3, "DECORATION">>, <<3, "ALTERATION">>, <<2, "REST">>, <<1, "CHORD">>, <<1, "EMPTY">>, <<1, "ERROR">>,
          <<0, "SIGNATURES">>, <<1, "CLEF">>, <<1, "TIME_SIGNATURE">>, <<1, "METER_SYMBOL">>,
          <<1, "KEY_SIGNATURE">>, <<1, "KEY_TOKEN">>,
          <<0, "ENGRAVED_SYMBOLS">>, <<0, "OTHER_CONTEXTUAL">>, <<0, "BARLINES">>,
          <<0, "COMMENTS">>, <<1, "FIELD_COMMENTS">>, <<1, "LINE_COMMENTS">>,
          <<0, "DYNAMICS">>, <<0, "HARMONY">>, <<0, "FINGERING">>, <<0, "LYRICS">>, <<0, "INSTRUMENTS">>,
          <<0, "IMAGE_ANNOTATIONS">>, <<1, "BOUNDING_BOXES">>, <<1, "LINE_BREAK">>,
          <<0, "OTHER">>, <<0, "MHXM">>, <<0, "ROOT">> >>

NCat == Len(Pre)
Cat == {Pre[i][2] : i \in 1..NCat}
NoCat == ""          \* "parent" of the top-level categories

\* index of the parent line of line i in the rendering: nearest earlier line that is one level up
ParentIdx(i) == IF Pre[i][1] = 0 THEN 0
                ELSE CHOOSE j \in 1..(i-1) : /\ Pre[j][1] = Pre[i][1] - 1
                                             /\ \A k \in (j+1)..(i-1) : Pre[k][1] >= Pre[i][1]
IdxOf(c) == CHOOSE i \in 1..NCat : Pre[i][2] = c
Parent == [c \in Cat |-> IF ParentIdx(IdxOf(c)) = 0 THEN NoCat ELSE Pre[ParentIdx(IdxOf(c))][2]]

(* ------------------------------ subtrees ------------------------------ *)
Children(p) == {c \in Cat : Parent[c] = p}

\* definition 1: walk up from the candidate
RECURSIVE AncOrSelf(_)
AncOrSelf(c) == IF c = NoCat THEN {} ELSE {c} \cup AncOrSelf(Parent[c])
AncT == [c \in Cat |-> AncOrSelf(c)]
Closure1(S) == {c \in Cat : AncT[c] \cap S # {}}

\* definition 2: collect top-down
RECURSIVE Sub(_)
Sub(p) == {p} \cup UNION {Sub(c) : c \in Children(p)}
SubT == [c \in Cat |-> Sub(c)]
Closure2(S) == UNION {SubT[s] : s \in S}

Closure(S) == Closure1(S)
Nodes(p) == SubT[p] \ {p}                             \* strict descendants
Leaves(p) == {c \in Nodes(p) : Children(c) = {}}
IsChild(p, c) == c \in SubT[p]                       \* reflexive: a category is its own descendant
IsLeaf(c) == Children(c) = {}

(* --------------------- include / exclude algebra ---------------------- *)
\* include = "all categories" is the default (None in the API); exclude default is the empty set
Valid(incAll, inc, exc) == (IF incAll THEN Cat ELSE Closure(inc)) \ Closure(exc)
Match(c, incAll, inc, exc) == SubT[c] \cap Valid(incAll, inc, exc) # {}

(* ------------------- the rendering of tree() as data ------------------ *)
\* line i of tree() (after the "." line) is category Pre[i][2] at depth Pre[i][1]; it is drawn with the
\* "last child" connector iff no later sibling exists
IsLastSibling(i) == ~ \E k \in (i+1)..NCat : /\ Pre[k][1] = Pre[i][1]
                                             /\ \A m \in (i+1)..k : Pre[m][1] >= Pre[i][1]
TreeLines == [i \in 1..NCat |-> <<Pre[i][1], Pre[i][2], IsLastSibling(i)>>]

(* -------------------------- laws of the design ------------------------ *)
Forest == /\ Cardinality(Cat) = 37 /\ NCat = 37                     \* each category exactly once
          /\ \A c \in Cat : Parent[c] \in Cat \cup {NoCat}
          /\ \A c \in Cat : c \notin AncOrSelf(Parent[c])           \* acyclic
          /\ \A c \in Cat : Cardinality({p \in Cat : c \in Children(p)}) <= 1
ClosuresAgree(S) == Closure1(S) = Closure2(S)
ValidLaws(inc, exc) ==
   /\ Valid(FALSE, inc, exc) \cap Closure2(exc) = {}
   /\ Valid(FALSE, inc, exc) \subseteq Closure2(inc)
   /\ Valid(FALSE, inc, exc) = Closure2(inc) \ Closure2(exc)
   /\ Valid(TRUE, {}, exc) = Cat \ Closure2(exc)
   /\ Closure1(Closure1(inc)) = Closure1(inc)                        \* closing is idempotent
   /\ \A c \in Cat : Match(c, FALSE, inc, exc) <=> (\E d \in SubT[c] : d \in Closure2(inc) /\ d \notin Closure2(exc))
   /\ \A c \in Valid(FALSE, inc, exc) : Nodes(c) \cap Closure2(exc) = {} => SubT[c] \subseteq Valid(FALSE, inc, exc)
=============================================================================
