--------------------------- MODULE MC_NoteGrammar ---------------------------
(***************************************************************************)
(* The writer automaton for single notes: it WRITES a token character      *)
(* group by character group (signifiers anywhere, duration, pitch,         *)
(* accidental) and keeps the abstract record of what it wrote.  Its `done` *)
(* states are exactly the notes of C01's grammar with up to MaxSig          *)
(* signifier occurrences.  TLC checks on every state that the normal form   *)
(* is canonical (depends only on the content), that it is itself writable   *)
(* with the same content (so export . import . export = export on the       *)
(* model) and that repeating a signifier changes nothing; every `done`      *)
(* token is printed so that the harness feeds it to the real parser.        *)
(***************************************************************************)
EXTENDS NoteGrammar, Categories, Json
CONSTANTS Sigs, MaxSig
VARIABLES rec, phase, nsig          \* phase: 0 start, 1 after duration, 2 after pitch, 3 after accidental, 4 done
vars == <<rec, phase, nsig>>

Durations == { <<>>, << <<52>> >>, << <<52>>, <<46>> >>, << <<56>>, <<46>>, <<46>> >>, << <<51, 37, 50>> >>,
               << <<49, 54>>, <<113>> >>, << <<56>>, <<46>>, <<80>> >> }               \* (none) 4 4. 8.. 3%2 16q 8.P
Pitches == { <<99>>, <<67, 67>> }                                                       \* c  CC
Accs == { <<>>, <<35>>, <<45, 45>>, <<110>>, <<35, 88>> }                                \* none # -- n #X
AltDisp == {120, 88, 105, 73, 106, 90, 121, 89}                                          \* x X i I j Z y Y
Empty == [s0 |-> <<>>, s1 |-> <<>>, s2 |-> <<>>, s3 |-> <<>>, dur |-> <<>>, p |-> <<>>, rest |-> FALSE, acc |-> <<>>]
Init == rec = Empty /\ phase = 0 /\ nsig = 0
Slot(ph) == CASE ph = 0 -> "s0" [] ph = 1 -> "s1" [] ph = 2 -> "s2" [] ph = 3 -> "s3"
WriteSig(c) == /\ phase < 4 /\ nsig < MaxSig
               /\ rec' = [rec EXCEPT ![Slot(phase)] = Append(@, <<c>>)]
               /\ nsig' = nsig + 1 /\ UNCHANGED phase
WriteDur(d) == phase = 0 /\ d # <<>> /\ rec' = [rec EXCEPT !.dur = d] /\ phase' = 1 /\ UNCHANGED nsig
WritePitch(p) == phase \in {0, 1} /\ rec' = [rec EXCEPT !.p = p] /\ phase' = 2 /\ UNCHANGED nsig
WriteAcc(a) == phase = 2 /\ a # <<>> /\ rec' = [rec EXCEPT !.acc = a] /\ phase' = 3 /\ UNCHANGED nsig
Finish == phase \in {2, 3} /\ phase' = 4 /\ UNCHANGED <<rec, nsig>>
Next == \/ \E c \in Sigs : WriteSig(c) \/ \E d \in Durations : WriteDur(d) \/ \E p \in Pitches : WritePitch(p)
        \/ \E a \in Accs : WriteAcc(a) \/ Finish
Spec == Init /\ [][Next]_vars

\* the quantifier of C01: the characters that are also an accidental-display suffix are used only on notes without accidental
InDomain(r) == r.acc = <<>> \/ \A s \in Written(r) : s[1] \notin AltDisp
Done == phase = 4 /\ InDomain(rec)

\* the canonical arrangement of a content: everything in its place, the signifier set once, sorted, at the end
Canon(r) == LET sg == SortedAtoms(Written(r)) IN
            [Empty EXCEPT !.dur = r.dur, !.p = r.p, !.acc = r.acc,
                          !.s2 = IF r.acc = <<>> THEN sg ELSE <<>>, !.s3 = IF r.acc = <<>> THEN <<>> ELSE sg]
Canonical == Done => SingleExt(rec, Cat) = SingleExt(Canon(rec), Cat)
CanonIsWritable == Done => LET k == Plain(SingleExt(rec, Cat))  c == Canon(rec) IN
                     /\ NoteText(c) = k                                  \* the kern export IS the text of the canonical arrangement
                     /\ InDomain(c)
                     /\ Written(c) = Written(rec) /\ c.dur = rec.dur /\ c.p = rec.p /\ c.acc = rec.acc
                     /\ Plain(SingleExt(c, Cat)) = k                     \* exporting it again changes nothing
ExtendedStripsToPlain == Done => StripSep(SingleExt(rec, Cat)) = NoteText(Canon(rec))
BasicDropsSignifiers == Done => BasicExt(SingleExt(rec, Cat)) = Join(MainParts(rec, rec.dur, Cat), AT)
RepetitionIrrelevant == [][\A c \in Sigs : (WriteSig(c) /\ <<c>> \in Written(rec)) => SingleExt(rec', Cat) = SingleExt(rec, Cat)]_vars
PositionIrrelevant == [][\A c \in Sigs : WriteSig(c) => SingleExt(rec', Cat) = SingleExt([rec EXCEPT !.s0 = Append(@, <<c>>)], Cat)]_vars
Emit == IF Done THEN PrintT("VP" \o ToJson([t |-> NoteText(rec), n |-> rec])) ELSE TRUE
=============================================================================
