----------------------------- MODULE SpinePaths -----------------------------
(***************************************************************************)
(* The importer's row machine (property C02; the state every document-     *)
(* level property is stated over).  One action per kind of line; the tree  *)
(* keeps the whole history.                                                *)
(*                                                                         *)
(* Stage indices are 1-based: stages[1] = <<root>> (kernpy's stage 0).      *)
(* A pointer is <<stage, position>>, NoPtr = <<0, 0>>.                      *)
(* Node == [par, hdr : pointer, cell : Cell, sig : [clef, key, time,        *)
(*          meter : pointer], lastop : pointer]                            *)
(* Cell == [k : class, t : text (code points)] + class-specific fields      *)
(*         (n : note record | ns : chord notes | bar : barline record)      *)
(***************************************************************************)
EXTENDS NoteGrammar, Dispatch

VARIABLES stages,   \* Seq(Seq(Node))
          live,     \* Seq(pointer): live spine paths after the last spine row (Importer._next/_prev_stage_parents)
          gtail,    \* pointer: last node of the global-comment chain (Importer._last_node_previous_to_header)
          mstarts,  \* Seq(Nat): stage index at which each measure starts (Document.measure_start_tree_stages, +1)
          lineno,   \* Nat: physical line number of the next line
          errs,     \* Seq(<<line, text>>): import errors reported so far (Importer.errors)
          status    \* "pre" | "body" | "closed" | "rejected"
spVars == <<stages, live, gtail, mstarts, lineno, errs, status>>

NoPtr == <<0, 0>>
NoSig == [clef |-> NoPtr, key |-> NoPtr, time |-> NoPtr, meter |-> NoPtr]
RootNode == [par |-> NoPtr, hdr |-> NoPtr, cell |-> [k |-> "root", t |-> <<>>], sig |-> NoSig, lastop |-> NoPtr]
At(p) == stages[p[1]][p[2]]
NS == Len(stages) + 1                            \* index of the stage a line is about to add

SpInit == /\ stages = << <<RootNode>> >> /\ live = <<>> /\ gtail = <<1, 1>> /\ mstarts = <<>>
          /\ lineno = 1 /\ errs = <<>> /\ status = "pre"

\* identity of the spine a node belongs to, read from the header it descends from
HdrOf(n) == n.hdr
SpineOf(n) == n.hdr[2] - 1                       \* 0-based spine id = column of the header
TypeOf(n) == At(n.hdr).cell.t                    \* header text, e.g. **kern
CatOfCell(ht, c) == CatOf(ht, c.k)

(* ------------------------------- actions -------------------------------- *)
Blank == /\ status # "rejected" /\ lineno' = lineno + 1
         /\ UNCHANGED <<stages, live, gtail, mstarts, errs, status>>

\* a global comment: its own stage with one node, chained under the previous global comment (or the root)
Global(c) ==
  /\ status # "rejected"
  /\ stages' = Append(stages, << [par |-> gtail, hdr |-> NoPtr, cell |-> c, sig |-> NoSig, lastop |-> NoPtr] >>)
  /\ gtail' = <<NS, 1>>
  /\ lineno' = lineno + 1
  /\ UNCHANGED <<live, mstarts, errs, status>>

Header(cs) ==
  /\ status = "pre" /\ Len(cs) > 0
  /\ stages' = Append(stages, [i \in 1..Len(cs) |->
                  [par |-> gtail, hdr |-> <<NS, i>>, cell |-> cs[i], sig |-> NoSig, lastop |-> NoPtr]])
  /\ live' = [i \in 1..Len(cs) |-> <<NS, i>>]
  /\ status' = "body" /\ lineno' = lineno + 1
  /\ UNCHANGED <<gtail, mstarts, errs>>

SigField(k) == CASE k = "clef" -> "clef" [] k = "keysig" -> "key" [] k = "timesig" -> "time" [] k = "meter" -> "meter"
\* An exclusive interpretation (**type) inside a later line - the line that follows an add-spine operator '*+' names the new
\* spine - starts a spine of its own: the node hangs under the global-comment chain like the header line's nodes, is its own
\* header (spine id = its column) and inherits nothing from the cell above it.
MkNode(i, c) ==
  LET p == At(live[i]) IN
  IF c.k = "hdr" THEN [par |-> gtail, hdr |-> <<NS, i>>, cell |-> c, sig |-> NoSig, lastop |-> NoPtr]
  ELSE
  [par |-> live[i], hdr |-> p.hdr, cell |-> c,
   sig |-> IF c.k \in SigClasses THEN [p.sig EXCEPT ![SigField(c.k)] = <<NS, i>>] ELSE p.sig,
   lastop |-> IF p.cell.k \in OpClasses THEN live[i] ELSE p.lastop]

\* live paths after a row: a split continues twice, a terminator not at all, of a run of adjacent joins that belong
\* to the same spine only the first continues, everything else continues once
JoinRunStart(cs, i) == i = 1 \/ cs[i - 1].k # "join" \/ At(live[i - 1]).hdr # At(live[i]).hdr
RECURSIVE NextLiveFrom(_, _)
NextLiveFrom(cs, i) ==
  IF i > Len(cs) THEN <<>>
  ELSE (CASE cs[i].k \in TwiceClasses -> << <<NS, i>>, <<NS, i>> >>
          [] cs[i].k = "term"  -> <<>>
          [] cs[i].k = "join"  -> (IF JoinRunStart(cs, i) THEN << <<NS, i>> >> ELSE <<>>)
          [] OTHER -> << <<NS, i>> >>) \o NextLiveFrom(cs, i + 1)
NextLive(cs) == NextLiveFrom(cs, 1)

\* the measure rule: a row starts a measure if it holds a barline or, while no measure is open yet, a CORE-category cell
MeasureRow(cs) ==
  \E i \in 1..Len(cs) :
     LET cat == CatOf(TypeOf(At(live[i])), cs[i].k) IN
     /\ cs[i].k \notin OpClasses /\ cs[i].k # "fcom"
     /\ (cat = "BARLINES" \/ (mstarts = <<>> /\ cat \in CoreCats))

\* malformed cells are reported once, with the physical line number, in column order (only kern-like spines can fail)
RowErrs(cs) == LET bad == SelectSeq([i \in 1..Len(cs) |-> i],
                                    LAMBDA i : cs[i].k = "err" /\ TypeOf(At(live[i])) \in KernLike)
               IN [j \in 1..Len(bad) |-> <<lineno, cs[bad[j]].t>>]

Row(cs) ==
  /\ status = "body" /\ Len(cs) = Len(live) /\ Len(cs) > 0
  /\ \A i \in 1..Len(cs) : cs[i].k # "exch"
  /\ stages' = Append(stages, [i \in 1..Len(cs) |-> MkNode(i, cs[i])])
  /\ live' = NextLive(cs)
  /\ mstarts' = IF MeasureRow(cs) THEN Append(mstarts, NS) ELSE mstarts
  /\ errs' = errs \o RowErrs(cs)
  /\ status' = IF NextLive(cs) = <<>> THEN "closed" ELSE "body"
  /\ lineno' = lineno + 1
  /\ UNCHANGED gtail

\* a line with more cells than live paths must be rejected (the implementation raises)
Surplus(cs) ==
  /\ status = "body" /\ Len(cs) > Len(live)
  /\ status' = "rejected"
  /\ UNCHANGED <<stages, live, gtail, mstarts, lineno, errs>>

\* a line with a spine-exchange operator '*x': legal Humdrum, but not supported - the implementation raises
Unsupported(cs) ==
  /\ status = "body" /\ Len(cs) = Len(live) /\ \E i \in 1..Len(cs) : cs[i].k = "exch"
  /\ status' = "rejected"
  /\ UNCHANGED <<stages, live, gtail, mstarts, lineno, errs>>

\* after every spine was terminated a new header line starts a new section (its nodes hang under the comment chain again,
\* spine ids start again at 0); Document.header_stage then names the LAST header line
Reopen(cs) ==
  /\ status = "closed" /\ Len(cs) > 0
  /\ stages' = Append(stages, [i \in 1..Len(cs) |->
                  [par |-> gtail, hdr |-> <<NS, i>>, cell |-> cs[i], sig |-> NoSig, lastop |-> NoPtr]])
  /\ live' = [i \in 1..Len(cs) |-> <<NS, i>>]
  /\ status' = "body" /\ lineno' = lineno + 1
  /\ UNCHANGED <<gtail, mstarts, errs>>

(* ------------------ what the tree must mean (C02 invariants) ------------ *)
IsGlobalStage(s) == s > 1 /\ Len(stages[s]) = 1 /\ stages[s][1].cell.k = "gcom"
IsHeaderStage(s) == s > 1 /\ \A i \in 1..Len(stages[s]) : stages[s][i].cell.k = "hdr"
IsSpineStage(s) == s > 1 /\ ~IsGlobalStage(s) /\ ~IsHeaderStage(s)
\* the previous spine-or-header stage before s
RECURSIVE PrevSpineStage(_)
PrevSpineStage(s) == IF s <= 1 THEN 0 ELSE IF ~IsGlobalStage(s - 1) /\ s - 1 > 1 THEN s - 1 ELSE PrevSpineStage(s - 1)

\* from-scratch recomputation of the live paths below a given spine/header stage (positions in that stage)
RECURSIVE ContFrom(_, _)
ContFrom(s, i) ==
  IF i > Len(stages[s]) THEN <<>>
  ELSE LET k == stages[s][i].cell.k IN
       (CASE k \in TwiceClasses -> <<i, i>>
          [] k = "term"  -> <<>>
          [] k = "join"  -> (IF i > 1 /\ stages[s][i - 1].cell.k = "join" /\ stages[s][i - 1].hdr = stages[s][i].hdr
                             THEN <<>> ELSE <<i>>)
          [] OTHER -> <<i>>) \o ContFrom(s, i + 1)

ParentOnSamePath ==
  \A s \in 2..Len(stages) : IsSpineStage(s) =>
     LET ps == PrevSpineStage(s)  cont == ContFrom(ps, 1) IN
     /\ Len(stages[s]) = Len(cont)
     /\ \A i \in 1..Len(stages[s]) : IF stages[s][i].cell.k = "hdr" THEN At(stages[s][i].par).hdr = NoPtr     \* a new spine: under the comment chain
                                       ELSE stages[s][i].par = <<ps, cont[i]>>
HeaderIdentity ==
  \A s \in 2..Len(stages) : \A i \in 1..Len(stages[s]) :
     LET n == stages[s][i] IN
     IF IsGlobalStage(s) THEN n.hdr = NoPtr
     ELSE IF IsHeaderStage(s) \/ n.cell.k = "hdr" THEN n.hdr = <<s, i>>
     ELSE n.hdr = At(n.par).hdr /\ At(n.hdr).cell.k = "hdr"
CommentChain ==
  LET gs == SelectSeq([s \in 1..Len(stages) |-> s], IsGlobalStage) IN
  /\ \A j \in 1..Len(gs) : stages[gs[j]][1].par = (IF j = 1 THEN <<1, 1>> ELSE <<gs[j - 1], 1>>)
  /\ gtail = (IF gs = <<>> THEN <<1, 1>> ELSE <<gs[Len(gs)], 1>>)
  /\ \A s \in 2..Len(stages) : IsHeaderStage(s) =>
        LET before == SelectSeq(gs, LAMBDA g : g < s) IN
        \A i \in 1..Len(stages[s]) : stages[s][i].par = (IF before = <<>> THEN <<1, 1>> ELSE <<before[Len(before)], 1>>)
LastSpineStage == LET ss == {s \in 2..Len(stages) : ~IsGlobalStage(s)} IN IF ss = {} THEN 0 ELSE Max(ss)
LivePathsMatch ==
  status \in {"body", "closed"} =>
     LET ls == LastSpineStage  cont == ContFrom(ls, 1) IN live = [i \in 1..Len(cont) |-> <<ls, cont[i]>>]
\* measure index recomputed from scratch over the history
RowIsMeasureCandidate(s, first) ==
  \E i \in 1..Len(stages[s]) :
     LET n == stages[s][i]  cat == CatOf(TypeOf(n), n.cell.k) IN
     /\ n.cell.k \notin OpClasses /\ n.cell.k # "fcom"
     /\ (cat = "BARLINES" \/ (first /\ cat \in CoreCats))
RECURSIVE MeasureScan(_, _)
MeasureScan(s, acc) ==
  IF s > Len(stages) THEN acc
  ELSE MeasureScan(s + 1, IF IsSpineStage(s) /\ RowIsMeasureCandidate(s, acc = <<>>) THEN Append(acc, s) ELSE acc)
MeasureIndexOK == mstarts = MeasureScan(2, <<>>)
\* governing signature recomputed by walking up the parents
RECURSIVE NearestOfClass(_, _)
NearestOfClass(ptr, k) == IF ptr = NoPtr \/ ptr = <<1, 1>> THEN NoPtr
                          ELSE IF At(ptr).cell.k = k /\ At(ptr).hdr # NoPtr /\ At(ptr).cell.k \in SigClasses THEN ptr
                          ELSE NearestOfClass(At(ptr).par, k)
GoverningSigOK ==
  \A s \in 2..Len(stages) : \A i \in 1..Len(stages[s]) :
     LET n == stages[s][i] IN
     IsSpineStage(s) => /\ n.sig.clef = NearestOfClass(<<s, i>>, "clef") /\ n.sig.key = NearestOfClass(<<s, i>>, "keysig")
                        /\ n.sig.time = NearestOfClass(<<s, i>>, "timesig") /\ n.sig.meter = NearestOfClass(<<s, i>>, "meter")
\* Importer state the excerpt exporter reads: every spine-operator token remembers the (0-based) stage at which the LAST join or
\* terminator below it, with no other operator in between on that path, was read (SpineOperationToken.cancelled_at_stage; 0 = never)
CancelledAt(ptr) == LET ss == {s \in 2..Len(stages) : \E i \in 1..Len(stages[s]) :
                                    stages[s][i].cell.k \in {"join", "term"} /\ stages[s][i].lastop = ptr} IN
                    IF ss = {} THEN 0 ELSE Max(ss) - 1
OpPtrs == LET ptrs == [s \in 1..Len(stages) |-> SelectSeq([i \in 1..Len(stages[s]) |-> <<s, i>>],
                                                            LAMBDA q : s > 1 /\ stages[q[1]][q[2]].cell.k \in OpClasses /\ stages[q[1]][q[2]].hdr # NoPtr)]
          IN Flat(ptrs)
CancelList == LET ps == OpPtrs IN [j \in 1..Len(ps) |-> <<ps[j][1], ps[j][2], CancelledAt(ps[j])>>]
LastHeaderStage == LET hs == {s \in 2..Len(stages) : \E i \in 1..Len(stages[s]) : stages[s][i].cell.k = "hdr"} IN IF hs = {} THEN 0 ELSE Max(hs) - 1
ClosedMeansNoLive == (status = "closed") <=> (status # "pre" /\ status # "rejected" /\ live = <<>>)
=============================================================================
