SPECIFICATION MCSpec
CONSTANTS
  MaxLines = 5
  MaxLive = 3
  HeaderRows <- HR2
  Lean = FALSE
  Ext = FALSE
INVARIANT OnlyPitchesMove
INVARIANT RoundTripOnModel
INVARIANT UnisonIsIdentity
INVARIANT SameGridShape

INVARIANT ConcatLaw
CHECK_DEADLOCK FALSE
