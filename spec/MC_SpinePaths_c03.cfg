SPECIFICATION MCSpec
CONSTANTS
  MaxLines = 5
  MaxLive = 3
  HeaderRows <- HR2
  Lean = FALSE
  Ext = FALSE
INVARIANT Conserve
CHECK_DEADLOCK FALSE
