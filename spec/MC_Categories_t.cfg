INIT Init
NEXT Next
CONSTANT MaxSet = 2
INVARIANT InvForest
INVARIANT InvClosures
INVARIANT InvValid
INVARIANT InvTree
CHECK_DEADLOCK FALSE
