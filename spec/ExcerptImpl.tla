---------------------------- MODULE ExcerptImpl ----------------------------
(***************************************************************************)
(* The measure-range export AS IMPLEMENTED (Exporter.export_string with    *)
(* from_measure >= 1): a transcription of the code's own algorithm, next   *)
(* to the REFERENCE excerpt of MC_Excerpt (what C08 requires).  Where the  *)
(* two differ the implementation has the recorded finding D15; having the  *)
(* algorithm in the specification lets TLC say exactly where (MC_Excerpt:  *)
(* ImplIsReference on core scores, counterexamples outside the core) and   *)
(* lets every recorded range export be compared with it line by line       *)
(* (Trace_Session: dumps.range_as_implemented - outside every listed       *)
(* property, informational).                                               *)
(*                                                                         *)
(* The algorithm (exporter.py):                                            *)
(*  1. spine structure: starting from the nodes of the stage that opens    *)
(*     measure a, walk UP the parents, one line per step; a line is kept   *)
(*     when it holds a selected header or a spine operator that is still   *)
(*     in force ("not cancelled" according to the importer's bookkeeping   *)
(*     CancelledAt); both children of a split walk up to the SAME parent,  *)
(*     which then occurs twice (deviation: duplicated columns);            *)
(*  2. signatures: for every node of that stage, its signature table in    *)
(*     insertion order (first appearance of each kind on the path), minus  *)
(*     the kinds restated inside the range before the first note; spines   *)
(*     WITHOUT such lines are skipped (deviation: columns shift), spines   *)
(*     with different numbers of lines make the export raise (deviation);  *)
(*  3. the body lines; 4. a terminator line sized from the last line.      *)
(***************************************************************************)
EXTENDS Queries

\* 0-based stage numbers as the implementation counts them: spec stage s is implementation stage s - 1
CancelledBefore(p, fs) == CancelledAt(p) # 0 /\ CancelledAt(p) < fs - 1              \* SpineOperationToken.is_cancelled_at(from_stage)
CancelsItsOperator(p) == LET n == At(p) IN n.lastop # NoPtr /\ CancelledAt(n.lastop) = p[1] - 1
AllCats(o) == [o EXCEPT !.cats = Cat]                                               \* export_token applies no category filter
TokOut(p, o) == CellView(At(p), AllCats(o)).t

RECURSIVE PreWalk(_, _, _)
PreWalk(next, fs, o) ==
  IF next = <<>> \/ next[1] = <<1, 1>> \/ next[1] = NoPtr THEN <<>>
  ELSE LET opRow == \E i \in 1..Len(next) : At(next[i]).cell.k \in OpClasses
           IsHdrSel(p) == At(p).cell.k = "hdr" /\ At(p).cell.t \in o.types
           Star(p) == At(p).cell.k \in OpClasses /\ (CancelledBefore(p, fs) \/ CancelsItsOperator(p))
           content(p) == IF IsHdrSel(p) THEN TokOut(p, o)
                         ELSE IF opRow THEN (IF Star(p) THEN <<STAR>> ELSE TokOut(p, o))
                         ELSE <<>>
           cells == [i \in 1..Len(next) |-> content(next[i])]
           row == SelectSeq(cells, LAMBDA c : c # <<>>)
           keep == \E i \in 1..Len(next) : IsHdrSel(next[i]) \/ (opRow /\ ~Star(next[i]))
           parents == [i \in 1..Len(next) |-> At(next[i]).par]
       IN PreWalk(parents, fs, o) \o (IF keep THEN <<row>> ELSE <<>>)

\* signature kinds of a node in the order in which they were first set on its path (dict insertion order of SignatureNodes)
ImplSigKinds == <<"clef", "keysig", "timesig", "meter">>
ImplSigPtr(n, k) == CASE k = "clef" -> n.sig.clef [] k = "keysig" -> n.sig.key [] k = "timesig" -> n.sig.time [] k = "meter" -> n.sig.meter
RECURSIVE FirstStageOfKind(_, _, _)
FirstStageOfKind(p, k, acc) == IF p = NoPtr \/ p = <<1, 1>> THEN acc
                               ELSE FirstStageOfKind(At(p).par, k, IF At(p).cell.k = k /\ At(p).hdr # NoPtr THEN p[1] ELSE acc)
KindsInOrder(p) == LET ks == {k \in SetOf(ImplSigKinds) : ImplSigPtr(At(p), k) # NoPtr} IN
                   SetToSortSeq(ks, LAMBDA x, y : FirstStageOfKind(p, x, 0) < FirstStageOfKind(p, y, 0))
\* is_signature_cancelled: some path below the node restates the kind before it reaches a (single) note or rest, within
\* to - from steps (a COUNTER of steps, as in the code - not the stage of the child)
RECURSIVE SigRestated(_, _, _, _)
SigRestated(k, p, from, to) ==
  LET n == At(p) IN
  IF n.cell.k = k THEN TRUE
  ELSE IF n.hdr # NoPtr /\ IsNoteObject(TypeOf(n), n.cell.k) THEN FALSE
  ELSE IF from < to THEN (LET ch == ChildPtrs(p) IN \E j \in 1..Len(ch) : SigRestated(k, ch[j], from + 1, to)) ELSE FALSE
NodeSigLines(p, fs, ls, o) ==
  LET ks == KindsInOrder(p)  kept == SelectSeq(ks, LAMBDA k : ~SigRestated(k, p, fs, ls)) IN
  [j \in 1..Len(kept) |-> TokOut(ImplSigPtr(At(p), kept[j]), o)]
SigColumns(fs, ls, o) == SelectSeq([i \in 1..Len(stages[fs]) |-> NodeSigLines(<<fs, i>>, fs, ls, o)], LAMBDA c : c # <<>>)
SigMismatch(fs, ls, o) == LET cols == SigColumns(fs, ls, o) IN \E i \in 1..Len(cols) : Len(cols[i]) # Len(cols[1])
SigRows(fs, ls, o) == LET cols == SigColumns(fs, ls, o) IN
                      IF cols = <<>> THEN <<>> ELSE [r \in 1..Len(cols[1]) |-> [c \in 1..Len(cols) |-> cols[c][r]]]

\* every body line that holds a cell (all-null lines included: they are only left out of the printed text at the very end)
RECURSIVE BodyRows(_, _, _)
BodyRows(s, last, o) == IF s > last THEN <<>>
                        ELSE LET row == RowTexts(s, o) IN (IF RowDropped(row) THEN <<>> ELSE <<row>>) \o BodyRows(s + 1, last, o)
CountOf(row, t) == Cardinality({i \in 1..Len(row) : row[i] = t})
\* [ok |-> BOOLEAN, grid |-> rows]: the export of measures a..b (a >= 1; hasTo says whether to_measure was given)
ImplExcerpt(a, hasTo, b, o) ==
  LET fs == mstarts[a]
      ls == IF hasTo /\ b < Len(mstarts) THEN mstarts[b + 1] ELSE Len(stages)
  IN IF SigMismatch(fs, ls, o) THEN [ok |-> FALSE, grid |-> <<>>]
     ELSE LET pre == PreWalk([i \in 1..Len(stages[fs]) |-> <<fs, i>>], fs, o)
              rows == pre \o SigRows(fs, ls, o) \o BodyRows(fs, ls, o)
              last == IF rows = <<>> THEN <<>> ELSE rows[Len(rows)]
              term == IF hasTo /\ rows # <<>> /\ last[1] # <<STAR, MINUS>>
                      THEN << [i \in 1..(Len(last) + CountOf(last, <<STAR, 94>>) - CountOf(last, <<STAR, 118>>)) |-> <<STAR, MINUS>>] >>
                      ELSE <<>>
              all == rows \o term
          IN [ok |-> TRUE, grid |-> SelectSeq(all, LAMBDA r : ~RowDropped(r))]
=============================================================================
