SPECIFICATION Spec
CONSTANT MaxLen = 3
CONSTRAINT Emit
INVARIANT ErrorsDoNotStopTheRun
PROPERTY OnlyTargetsChange
PROPERTY NonRecursiveStaysShallow
PROPERTY SuffixRule
PROPERTY InputsSurvive
PROPERTY ConvertedIsApiValue
CHECK_DEADLOCK FALSE
