SPECIFICATION MCSpec
CONSTANTS
  MaxLines = 5
  MaxLive = 3
  HeaderRows <- HR2
  Lean = FALSE
  Ext = FALSE
INVARIANT BarlinesSameUnderEveryType
INVARIANT InvMeasures
CHECK_DEADLOCK FALSE
