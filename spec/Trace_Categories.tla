-------------------------- MODULE Trace_Categories --------------------------
(* Validates recorded answers of kernpy's category API against Categories.tla (binding for C11).      *)
(* A log is a sequence of call records {op, a, b, incall, inc, exc, res, resb}; every record is one   *)
(* step.  Verdicts are total: a failing record is noted in `fails` and the rest is still checked.      *)
EXTENDS Categories, TLCExt, Json, IOUtils
VARIABLES tid, l, fails
Log == JsonDeserialize(IOEnv.TRACE_FILE)
Ev == Log[tid][l]
SetOf(s) == {s[i] : i \in DOMAIN s}
Expected(e) ==
  CASE e.op = "is_child" -> e.resb = IsChild(e.a, e.b)                 \* a = parent, b = child
    [] e.op = "children" -> SetOf(e.res) = Children(e.a) /\ Len(e.res) = Cardinality(Children(e.a))
    [] e.op = "nodes"    -> SetOf(e.res) = Nodes(e.a) /\ Len(e.res) = Cardinality(Nodes(e.a))
    [] e.op = "leaves"   -> SetOf(e.res) = Leaves(e.a) /\ Len(e.res) = Cardinality(Leaves(e.a))
    [] e.op = "all"      -> SetOf(e.res) = Cat /\ Len(e.res) = 37
    [] e.op = "enum"     -> SetOf(e.res) = Cat /\ Len(e.res) = 37            \* the enumeration itself
    [] e.op = "tree"     -> e.res = TreeLines
    [] e.op = "valid"    -> SetOf(e.res) = Valid(e.incall, SetOf(e.inc), SetOf(e.exc))
                            /\ Len(e.res) = Cardinality(SetOf(e.res))
    [] e.op = "match"    -> e.resb = Match(e.a, e.incall, SetOf(e.inc), SetOf(e.exc))
    [] OTHER -> FALSE
Init == tid \in 1..Len(Log) /\ l = 1 /\ fails = <<>>
Step == /\ l <= Len(Log[tid]) /\ l' = l + 1 /\ UNCHANGED tid
        /\ fails' = IF Expected(Ev) THEN fails ELSE Append(fails, <<l, Ev.op>>)
Spec == Init /\ [][Step]_<<tid, l, fails>>
Mark == TLCSet(1, [TLCGet(1) EXCEPT ![tid] = IF @.l < l THEN [l |-> l, fails |-> fails] ELSE @])
Verdict == PrintT("VERDICT" \o ToJson([r |-> TLCGet(1)]))
ASSUME TLCSet(1, [t \in 1..Len(Log) |-> [l |-> 0, fails |-> <<>>]])
=============================================================================
