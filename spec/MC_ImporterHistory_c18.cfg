SPECIFICATION Spec
CONSTANTS
  MaxLen = 3
  Types <- AllTypes
INVARIANT OutcomeIndependent
INVARIANT NothingPending
INVARIANT NonKernNeverFails
PROPERTY OnlyLastMatters
CHECK_DEADLOCK FALSE
