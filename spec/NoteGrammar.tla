---------------------------- MODULE NoteGrammar ----------------------------
(***************************************************************************)
(* Notes, rests, chords and barlines: what is WRITTEN (text, as code       *)
(* points) and what it MEANS (abstract content), and the reference for     *)
(* what every encoding must print for it under a category selection.       *)
(* Properties C01, C03, C04, C05, C10 (document level), C13.               *)
(*                                                                         *)
(* A written note or rest is a record                                      *)
(*   s0, s1, s2, s3 : sequences of signifier atoms written before the      *)
(*                    duration / between duration and pitch / between      *)
(*                    pitch and accidental / after the accidental          *)
(*   dur  : duration sub-tokens as written: the number (n or n%m), one     *)
(*          <<46>> per augmentation dot, optionally a grace/appoggiatura   *)
(*          mark                                                           *)
(*   p    : the pitch letters (or the rest letters r / rr)                 *)
(*   rest : BOOLEAN                                                        *)
(*   acc  : accidental with its display suffix, or <<>>                    *)
(* An atom is a non-empty sequence of code points (one decoration).        *)
(***************************************************************************)
EXTENDS Text, Pitch

NoteText(n) == Flat(n.s0) \o Flat(n.dur) \o Flat(n.s1) \o n.p \o Flat(n.s2) \o n.acc \o Flat(n.s3)
ChordText(ns) == Join([i \in 1..Len(ns) |-> NoteText(ns[i])], SPACE)

(* ------------------------------ meaning -------------------------------- *)
STEMS == {<<47>>, <<92>>}                                            \* '/' and '\'
Written(n) == SetOf(n.s0) \cup SetOf(n.s1) \cup SetOf(n.s2) \cup SetOf(n.s3)
OwnSigs(n) == IF n.rest THEN Written(n) \ STEMS ELSE Written(n)     \* stem marks written on a rest are discarded
\* all notes of a chord share one decoration list in kernpy: every note carries the union (property C03 tolerates this)
ChordSigs(ns) == UNION {OwnSigs(ns[i]) : i \in 1..Len(ns)}
\* the duration a chord note prints is its own (C03: nothing is invented).  kernpy prints the duration of the nearest
\* earlier chord note for a note written without one: a recorded finding (class chord_note_without_duration)
EffDur(ns, i) == ns[i].dur

(* --------------------- what an encoding prints ------------------------- *)
\* main sub-tokens in category order DURATION < PITCH < ALTERATION < REST, durations in written order
MainParts(n, dur, cats) ==
   (IF "DURATION" \in cats THEN dur ELSE <<>>)
   \o (IF n.rest THEN (IF "REST" \in cats THEN << <<114>> >> ELSE <<>>)
       ELSE (IF "PITCH" \in cats THEN <<n.p>> ELSE <<>>)
            \o (IF n.acc # <<>> /\ "ALTERATION" \in cats THEN <<n.acc>> ELSE <<>>))
Decos(S, cats) == IF "DECORATION" \in cats THEN SortedAtoms(S) ELSE <<>>   \* decorations: a set, printed sorted by text
Assemble(main, decos) ==
   LET t == Join(main, AT) \o (IF decos = <<>> THEN <<>> ELSE <<MID>> \o Join(decos, MID))
   IN IF t = <<>> THEN <<STAR>> ELSE t                                      \* an emptied note prints '*'
NoteExt(n, dur, sigs, cats) == Assemble(MainParts(n, dur, cats), Decos(sigs, cats))

\* agnostic: pitch letters replaced by the G2 pitch at the same staff position under clef kind ck; the accidental is
\* carried unchanged and glued to the converted letters (one unit).  ck = "NONE": no clef in force; "BAD": unsupported
NeedsClef(n, cats) == ~n.rest /\ "PITCH" \in cats
AgnMainParts(n, dur, cats, ck) ==
   IF n.rest \/ ~("PITCH" \in cats \/ (n.acc # <<>> /\ "ALTERATION" \in cats)) THEN MainParts(n, dur, cats)
   ELSE (IF "DURATION" \in cats THEN dur ELSE <<>>)
        \o << (IF "PITCH" \in cats THEN AgnosticLetters(ck, Unspell(n.p)) ELSE <<>>)
              \o (IF "ALTERATION" \in cats THEN n.acc ELSE <<>>) >>
NoteAgnExt(n, dur, sigs, cats, ck) == Assemble(AgnMainParts(n, dur, cats, ck), Decos(sigs, cats))

\* extended text of a note cell / chord cell ("ext" = ekern-style with separators)
SingleExt(n, cats) == NoteExt(n, n.dur, OwnSigs(n), cats)
ChordExt(ns, cats) == Join([i \in 1..Len(ns) |-> NoteExt(ns[i], EffDur(ns, i), ChordSigs(ns), cats)], SPACE)
SingleAgnExt(n, cats, ck) == NoteAgnExt(n, n.dur, OwnSigs(n), cats, ck)
ChordAgnExt(ns, cats, ck) == Join([i \in 1..Len(ns) |-> NoteAgnExt(ns[i], EffDur(ns, i), ChordSigs(ns), cats, ck)], SPACE)

\* the text transformations that derive the other encodings from the extended text (applied to EVERY token)
Plain(t) == StripSep(t)
BasicNote(t) == LET cut == SplitOn(t, MID)[1] IN
                IF cut # <<>> /\ cut[Len(cut)] = AT THEN SubSeq(cut, 1, Len(cut) - 1) ELSE cut
BasicExt(t) == IF ~Has(t, MID) THEN t
               ELSE LET parts == SplitOn(t, SPACE) IN Join([i \in 1..Len(parts) |-> BasicNote(parts[i])], SPACE)
BasicPlain(t) == Without(BasicExt(t), AT)

(* ------------------------------- barlines ------------------------------ *)
\* [dbl, num, ab, hid, typ, ferm, tail]:  '=' ['='] number [a][b] ['-'] type [';'] tail      (tail: j . ? marks)
BarText(b) == <<EQ>> \o (IF b.dbl THEN <<EQ>> ELSE <<>>) \o b.num \o b.ab \o (IF b.hid THEN <<MINUS>> ELSE <<>>)
              \o b.typ \o (IF b.ferm THEN <<SEMI>> ELSE <<>>) \o b.tail
BarExport(b) == <<EQ>> \o (IF b.dbl THEN <<EQ>> ELSE <<>>) \o b.typ \o (IF b.ferm THEN <<SEMI>> ELSE <<>>)
BarTypes == { <<>>, <<124, 124>>, <<124, 33>>, <<124, 33, 58>>, <<124, 58>>, <<33, 124, 58>>, <<58, 124, 33>>, <<61, 58, 124, 33>>,
              <<58, 124, 33, 124, 58>>, <<58, 124, 124, 58>>, <<58, 33, 58>>, <<58, 33, 33, 58>>, <<61>> }
=============================================================================
