--------------------------- MODULE ImporterHistory ---------------------------
(***************************************************************************)
(* One spine importer object under a history of import_token calls          *)
(* (properties C12 and C18).  The outcome of a call is a function of the    *)
(* spine type and the cell alone: Outcome(ht, cell).  The object has hidden *)
(* state in the implementation (the error listener's list); the             *)
(* specification says it is empty at the start of every call, so it never   *)
(* influences an outcome.                                                   *)
(***************************************************************************)
EXTENDS NoteGrammar, Dispatch

TokText(c) == IF c.k = "bar" THEN BarExport(c.bar) ELSE c.t
\* [ok |-> FALSE]: the call raises (the row importer turns it into one ErrorToken);  otherwise category and token text
Outcome(ht, c) ==
  IF ht \in KernLike THEN (IF c.k = "err" THEN [ok |-> FALSE, cat |-> "ERROR", enc |-> c.t]
                           ELSE [ok |-> TRUE, cat |-> KernCat(c.k), enc |-> TokText(c)])
  ELSE \* every other spine type: never fails; shared structure as in **kern, anything else verbatim in the own category
       IF c.k \in SharedClasses THEN [ok |-> TRUE, cat |-> KernCat(c.k), enc |-> TokText(c)]
       ELSE [ok |-> TRUE, cat |-> OwnCat(ht), enc |-> c.t]

VARIABLES ht, seen, pending, outcome       \* pending: errors held by the listener when the next call starts
ihVars == <<ht, seen, pending, outcome>>
IHInit(types) == ht \in types /\ seen = <<>> /\ pending = 0 /\ outcome = [ok |-> TRUE, cat |-> "NONE", enc |-> <<>>]
Import(c) == /\ seen' = Append(seen, c)
             /\ outcome' = Outcome(ht, c)
             /\ pending' = 0                  \* cleared at the start of the call; what the call itself collects is reported, not kept
             /\ UNCHANGED ht
=============================================================================
