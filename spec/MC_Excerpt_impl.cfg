SPECIFICATION Spec
CONSTANTS
  MaxLines = 6
  MaxLive = 3
  UseImpl = TRUE
  EqualKinds = TRUE
INVARIANT ImplNeverRaises
INVARIANT ImplIsReference
INVARIANT NeverStuck
INVARIANT EndsClosed
INVARIANT SameGoverning
CHECK_DEADLOCK FALSE
