-------------------------------- MODULE Text --------------------------------
(* Text as sequences of Unicode code points; the few string operations the specification needs. *)
EXTENDS Integers, Sequences, FiniteSets, SequencesExt, FiniteSetsExt

AT == 64        \* '@'  separator between the main sub-tokens of a note in the extended encodings
MID == 183      \* '·'  separator in front of each decoration in the extended encodings
SPACE == 32   STAR == 42   DOT == 46   EQ == 61   BANG == 33   MINUS == 45   SEMI == 59

SetOf(s) == {s[i] : i \in DOMAIN s}

RECURSIVE Flat(_)
Flat(ss) == IF ss = <<>> THEN <<>> ELSE Head(ss) \o Flat(Tail(ss))

RECURSIVE Join(_, _)
Join(ss, sep) == IF ss = <<>> THEN <<>>
                 ELSE IF Len(ss) = 1 THEN ss[1] ELSE ss[1] \o <<sep>> \o Join(Tail(ss), sep)

StripSep(t) == SelectSeq(t, LAMBDA c : c # AT /\ c # MID)
Without(t, c) == SelectSeq(t, LAMBDA x : x # c)
Has(t, c) == \E i \in DOMAIN t : t[i] = c

RECURSIVE SplitOn(_, _)
SplitOn(t, sep) ==
  LET idx == {i \in DOMAIN t : t[i] = sep} IN
  IF idx = {} THEN <<t>>
  ELSE LET i == Min(idx) IN <<SubSeq(t, 1, i - 1)>> \o SplitOn(SubSeq(t, i + 1, Len(t)), sep)

\* strict lexicographic order on code-point sequences (= Python's str comparison)
LexLess(a, b) ==
  \E i \in 1..(Len(a) + 1) :
     /\ \A j \in 1..(i - 1) : j <= Len(b) /\ a[j] = b[j]
     /\ \/ (i = Len(a) + 1 /\ Len(b) >= i)
        \/ (i <= Len(a) /\ i <= Len(b) /\ a[i] < b[i])

SortedAtoms(S) == SetToSortSeq(S, LexLess)

StartsWith(t, p) == Len(t) >= Len(p) /\ SubSeq(t, 1, Len(p)) = p
=============================================================================
