SPECIFICATION MCSpec
CONSTANTS
  MaxLines = 5
  MaxLive = 3
  HeaderRows <- HR2
  Lean = FALSE
  Ext = FALSE
CONSTRAINT Emit
INVARIANT StagePerLine
INVARIANT NodePerCell
INVARIANT SurplusRejects
INVARIANT InvParent
INVARIANT InvHeader
INVARIANT InvComments
INVARIANT InvLive
INVARIANT InvMeasures
INVARIANT InvSignatures
INVARIANT InvClosed
INVARIANT ListingOrderOK
INVARIANT Conserve
INVARIANT ProjectionLaw
INVARIANT PartitionLaw
CHECK_DEADLOCK FALSE
