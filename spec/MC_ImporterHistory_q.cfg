SPECIFICATION Spec
CONSTANTS
  MaxLen = 4
  Types <- KernTypes
CONSTRAINT Emit
INVARIANT OutcomeIndependent
INVARIANT NothingPending
INVARIANT NonKernNeverFails
PROPERTY OnlyLastMatters
CHECK_DEADLOCK FALSE
