SPECIFICATION Spec
INVARIANT ImportRight
INVARIANT ExportRoundTrip
INVARIANT Count539
PROPERTY ExportPure
CHECK_DEADLOCK FALSE
