SPECIFICATION Spec
CONSTANTS MaxLen = 12
          Parts = {"cache", "box", "dur"}
          MaxPool = 4
INVARIANT CacheSound
INVARIANT UnionLaws
INVARIANT DursValid
CONSTRAINT Emit
CHECK_DEADLOCK FALSE
