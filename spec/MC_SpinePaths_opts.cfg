SPECIFICATION MCSpec
CONSTANTS
  MaxLines = 5
  MaxLive = 3
  HeaderRows <- HR2
  Lean = FALSE
  Ext = FALSE
INVARIANT CommuteLaw
INVARIANT FilterIdentity
INVARIANT SubsequenceLaw
CHECK_DEADLOCK FALSE
