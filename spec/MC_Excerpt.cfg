SPECIFICATION Spec
CONSTANTS
  MaxLines = 7
  MaxLive = 3
INVARIANT NeverStuck
INVARIANT EndsClosed
INVARIANT SameGoverning
CHECK_DEADLOCK FALSE
