SPECIFICATION SSpec
CONSTANTS
  NCalls = 30
  MaxLen = 2
CONSTRAINT Emit
INVARIANT NeverTouched
PROPERTY ReadOnly
CHECK_DEADLOCK FALSE
