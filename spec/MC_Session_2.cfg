SPECIFICATION SSpec
CONSTANTS
  NCalls = 32
  MaxLen = 2
CONSTRAINT Emit
INVARIANT NeverTouched
PROPERTY ReadOnly
CHECK_DEADLOCK FALSE
