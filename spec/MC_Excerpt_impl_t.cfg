SPECIFICATION Spec
CONSTANTS
  MaxLines = 8
  MaxLive = 3
  UseImpl = TRUE
  EqualKinds = TRUE
INVARIANT ImplNeverRaises
INVARIANT ImplIsReference
INVARIANT NeverStuck
INVARIANT EndsClosed
INVARIANT SameGoverning
CHECK_DEADLOCK FALSE
