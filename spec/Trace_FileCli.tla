---------------------------- MODULE Trace_FileCli ----------------------------
(* Validates recorded runs of the real converters / dump / load in a scratch directory against FileCli.tla.               *)
(* Log: {"ev":"init","snap":S}  then  {"ev":"act","act":A,"p":<<dir,stem,suffix>>,"out":BOOLEAN,"rec":BOOLEAN,"snap":S}      *)
(*      or {"ev":"load","same":BOOLEAN} (load(path) is indistinguishable from loads(text of the file)).                         *)
(* S = the directory after the step: a sequence of <<dir, stem, suffix, label>>.                                                *)
EXTENDS FileCli, TLCExt, Json, IOUtils
VARIABLES tid, l, fails
Log == JsonDeserialize(IOEnv.TRACE_FILE)
Ev == Log[tid][l]
tvars == <<fs, last, tid, l, fails>>
Note(checks) == LET bad == SelectSeq(checks, LAMBDA c : ~c[2]) IN fails' = fails \o [j \in 1..Len(bad) |-> <<l, bad[j][1]>>]
FsOf(snap) == [p \in Paths |-> IF \E j \in 1..Len(snap) : <<snap[j][1], snap[j][2], snap[j][3]>> = p
                               THEN snap[CHOOSE j \in 1..Len(snap) : <<snap[j][1], snap[j][2], snap[j][3]>> = p][4] ELSE ABSENT]
Known(snap) == \A j \in 1..Len(snap) : <<snap[j][1], snap[j][2], snap[j][3]>> \in Paths
OUTE == <<"", "out", "ekrn">>   OUTK == <<"", "out", "krn">>
Act(e) == CASE e.act = "k2e_file" -> K2EFile(e.p, e.out, OUTE)
            [] e.act = "e2k_file" -> E2KFile(e.p, e.out, OUTK)
            [] e.act = "k2e_dir"  -> K2EDir(e.p[1], e.rec)
            [] e.act = "e2k_dir"  -> E2KDir(e.p[1], e.rec)
            [] e.act = "dump"     -> Dump(e.p)
            [] e.act = "dump_opts" -> DumpOpts(e.p)
            [] e.act = "dump_empty" -> DumpEmpty(e.p)
            [] e.act = "redump" -> Redump(e.p)
TInitEv == /\ l = 1 /\ Ev.ev = "init" /\ l' = 2 /\ UNCHANGED <<tid, fails>>
           /\ fs' = FsOf(Ev.snap) /\ last' = NoAct
TAct == /\ l > 1 /\ l <= Len(Log[tid]) /\ Ev.ev = "act" /\ l' = l + 1 /\ UNCHANGED tid
        /\ Act(Ev)
        /\ Note(<< <<"cli.no_unexpected_files", Known(Ev.snap)>>,
                   <<"cli.directory_equals_api_result", fs' = FsOf(Ev.snap)>>,
                   <<"cli.only_targets_change", \A p \in Paths : FsOf(Ev.snap)[p] # fs[p] => p \in last'.targets>> >>)
TLoad == /\ l > 1 /\ l <= Len(Log[tid]) /\ Ev.ev = "load" /\ l' = l + 1 /\ UNCHANGED <<tid, fs, last>>
         /\ Note(<< <<"load.equals_loads_of_the_text", Ev.same>> >>)
\* the converter's ekern output converted to kern and back to ekern is the original ekern (evaluated on real outputs by the harness)
TRound == /\ l > 1 /\ l <= Len(Log[tid]) /\ Ev.ev = "roundtrip" /\ l' = l + 1 /\ UNCHANGED <<tid, fs, last>>
          /\ Note(<< <<"cli.ekern_to_kern_and_back_is_the_original_ekern", Ev.same>>, <<"cli.kern_from_ekern_is_kern", Ev.iskern>> >>)
Init == tid \in 1..Len(Log) /\ l = 1 /\ fails = <<>> /\ fs = [p \in Paths |-> ABSENT] /\ last = NoAct
Spec == Init /\ [][TInitEv \/ TAct \/ TLoad \/ TRound]_tvars
Mark == TLCSet(1, [TLCGet(1) EXCEPT ![tid] = IF @.l < l THEN [l |-> l, fails |-> fails] ELSE @])
Verdict == PrintT("VERDICT" \o ToJson([r |-> TLCGet(1)]))
ASSUME TLCSet(1, [t \in 1..Len(Log) |-> [l |-> 0, fails |-> <<>>]])
=============================================================================
