----------------------------- MODULE MC_Session -----------------------------
(* Enumerates (exhaustively for MaxLen <= 2, by simulation for MaxLen = 12) the histories of read-only calls. *)
EXTENDS Session, TLC, Json
Emit == IF Len(hist) = MaxLen THEN PrintT("VP" \o ToJson([hist |-> hist])) ELSE TRUE
=============================================================================
