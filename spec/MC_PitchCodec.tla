--------------------------- MODULE MC_PitchCodec ---------------------------
(* C16 on the model: a pitch object under the history Import(s) . Export . Export, for all 539 spellings *)
(* (7 letters x alterations -3..3 x octaves -1..9).                                                       *)
EXTENDS Pitch
VARIABLES src, obj, out, phase
vars == <<src, obj, out, phase>>
Spellings == [l : Letters, a : -3..3, o : -1..9]
Init == src = NoPitch /\ obj = NoPitch /\ out = <<>> /\ phase = 0
Import(q) == phase = 0 /\ src' = q /\ obj' = Unspell(Spell(q)) /\ out' = <<>> /\ phase' = 1
Export == phase \in {1, 2} /\ out' = Spell(obj) /\ phase' = phase + 1 /\ UNCHANGED <<src, obj>>
Next == (\E q \in Spellings : Import(q)) \/ Export
Spec == Init /\ [][Next]_vars
ImportRight == phase >= 1 => obj = src                       \* right letter, alteration and octave
ExportRoundTrip == phase >= 2 => out = Spell(src)            \* same spelling back, also the second time
ExportPure == [][phase >= 1 => obj' = obj]_vars              \* exporting never alters the pitch object
Count539 == Cardinality(Spellings) = 539
=============================================================================
