--------------------------- MODULE Trace_Session ---------------------------
(***************************************************************************)
(* Trace specification: validates a recorded session of the real kernpy -  *)
(* the lines fed to the importer (with the generator's ABSTRACT cell       *)
(* descriptions), the tree kernpy built for each line, and then a history   *)
(* of API calls with their results - against SpinePaths / Export /         *)
(* Queries.  Re-uses the actions of SpinePaths; nothing is restated.       *)
(*                                                                         *)
(* Verdicts are total: a logged value that differs from the value of the   *)
(* specification's operator is noted in `fails` as <<event index, clause>>  *)
(* and validation continues.  A log only BLOCKS when a line is not a step   *)
(* the row machine allows at all (then l stops short of the end).          *)
(***************************************************************************)
EXTENDS Transform, TLCExt, Json, IOUtils

VARIABLES tid, l, fails, snap0
Log == JsonDeserialize(IOEnv.TRACE_FILE)
Ev == Log[tid][l]
allVars == <<stages, live, gtail, mstarts, lineno, errs, status, tid, l, fails, snap0>>

Advance == l <= Len(Log[tid]) /\ l' = l + 1 /\ UNCHANGED tid
IsEvent(e) == Advance /\ Ev.ev = e
Note(checks) == LET bad == SelectSeq(checks, LAMBDA c : ~c[2]) IN fails' = fails \o [j \in 1..Len(bad) |-> <<l, bad[j][1]>>]

(* ------------------------- observation of a stage ----------------------- *)
ObsNode(n) == <<n.par[1], n.par[2], n.hdr[1], n.hdr[2], n.sig.clef[1], n.sig.clef[2], n.sig.key[1], n.sig.key[2],
                n.sig.time[1], n.sig.time[2], n.sig.meter[1], n.sig.meter[2], n.lastop[1], n.lastop[2]>>
NewStage == stages'[Len(stages')]
ObsStage == [i \in 1..Len(NewStage) |-> ObsNode(NewStage[i])]
\* what kernpy's token for a cell must look like: <<category, encoding text, hidden, spine id, header text>>
TokOf(n) == <<CatOf(stages'[n.hdr[1]][n.hdr[2]].cell.t, n.cell.k), TokEncoding(n.cell), IsHidden(n.cell),
              n.hdr[2] - 1, stages'[n.hdr[1]][n.hdr[2]].cell.t>>
ObsToks == [i \in 1..Len(NewStage) |-> TokOf(NewStage[i])]
\* the five components separately, so that a deviation is attributed to the property it belongs to
TokPart(k) == [i \in 1..Len(NewStage) |-> TokOf(NewStage[i])[k]]
ObsPart(toks, k) == [i \in 1..Len(toks) |-> toks[i][k]]
TokChecks(prefix, toks) ==
  << <<prefix \o ".token_category", ObsPart(toks, 1) = TokPart(1)>>,
     <<prefix \o ".token_text", ObsPart(toks, 2) = TokPart(2)>>,
     <<prefix \o ".token_hidden", ObsPart(toks, 3) = TokPart(3)>>,
     <<prefix \o ".spine_id", ObsPart(toks, 4) = TokPart(4)>>,
     <<prefix \o ".header_text", ObsPart(toks, 5) = TokPart(5)>> >>
\* the generator's text of a cell must be the text its abstract description writes
CellTextOK(c) == CASE c.k = "note" -> c.t = NoteText(c.n)
                   [] c.k = "chord" -> c.t = ChordText(c.ns)
                   [] c.k = "bar" -> c.t = BarText(c.bar)
                   [] OTHER -> TRUE
CellsTextOK(cs) == \A i \in 1..Len(cs) : CellTextOK(cs[i])

TBlank == IsEvent("blank") /\ Blank /\ UNCHANGED <<fails, snap0>>
TGlobal == /\ IsEvent("global") /\ Global(Ev.cell) /\ UNCHANGED snap0
           /\ Note(<< <<"global.parent", <<NewStage[1].par[1], NewStage[1].par[2]>> = Ev.obs.par>>,
                      <<"global.onenode", Ev.obs.n = 1>>,
                      <<"global.text", Ev.obs.text = Ev.cell.t>> >>)
THeader == /\ IsEvent("header") /\ (Header(Ev.cells) \/ Reopen(Ev.cells)) /\ UNCHANGED snap0
           /\ Note(<< <<"header.tree", ObsStage = Ev.obs.stage>> >> \o TokChecks("header", Ev.obs.toks))
TRow == /\ IsEvent("row") /\ Row(Ev.cells) /\ UNCHANGED snap0
        /\ Note(<< <<"row.generator_text", CellsTextOK(Ev.cells)>>,
                   <<"row.node_per_cell", Len(Ev.obs.stage) = Len(Ev.cells)>>,
                   <<"row.tree", ObsStage = Ev.obs.stage>>,
                   <<"row.measure_index", mstarts' = Ev.obs.mst>>,
                   \* C12: a malformed cell of a kern-like spine becomes an ERROR token that keeps the text verbatim
                   <<"row.malformed_cells", \A i \in 1..Len(Ev.cells) :
                        (Ev.cells[i].k = "err" /\ i <= Len(NewStage) /\ i <= Len(Ev.obs.toks) /\ stages'[NewStage[i].hdr[1]][NewStage[i].hdr[2]].cell.t \in KernLike)
                           => (Ev.obs.toks[i][1] = "ERROR" /\ Ev.obs.toks[i][2] = Ev.cells[i].t)>> >> \o TokChecks("row", Ev.obs.toks))
TSurplus == /\ IsEvent("surplus") /\ Surplus(Ev.cells) /\ UNCHANGED snap0
            /\ Note(<< <<"surplus.rejected", Ev.obs.raised>> >>)
\* a line with the exchange operator: the implementation must refuse it (it does not support '*x')
TUnsupported == /\ IsEvent("unsupported") /\ Unsupported(Ev.cells) /\ UNCHANGED snap0
                /\ Note(<< <<"unsupported.rejected", Ev.obs.raised>> >>)
\* end of the import: totals of the real document
TEnd == /\ IsEvent("end") /\ UNCHANGED spVars /\ snap0' = Ev.snap
        /\ Note(<< <<"end.stage_per_line", Ev.obs.nstages = Len(stages)>>,
                   <<"end.errors", Ev.obs.errs = errs>>,
                   <<"end.measure_index", Ev.obs.mst = mstarts>>,
                   <<"end.shape", Ev.obs.shape = [s \in 1..Len(stages) |-> Len(stages[s])]>>,
                   <<"end.page_index", "pages" \in DOMAIN Ev.obs => Ev.obs.pages = PageIndex>>,
                   <<"end.cancelled_at", "cancel" \in DOMAIN Ev.obs => Ev.obs.cancel = CancelList>>,
                   <<"end.header_stage", "hstage" \in DOMAIN Ev.obs => Ev.obs.hstage = LastHeaderStage>>,
                   <<"end.two_imports_indistinguishable", "snap2" \in DOMAIN Ev => Ev.snap2 = Ev.snap>> >>)

\* kernpy.loads raised on input the generator built to be well-formed
TImportFailed == /\ IsEvent("import_failed") /\ UNCHANGED spVars /\ UNCHANGED snap0
                 /\ Note(<< <<"import.raised_on_wellformed_input", FALSE>> >>)

(* --------------------------------- calls -------------------------------- *)
OptsOf(a) == [types |-> IF a.alltypes THEN KnownHeaders ELSE SetOf(a.types),
              allids |-> a.allids, ids |-> SetOf(a.ids),
              cats |-> Valid(a.incall, SetOf(a.inc), SetOf(a.exc)), enc |-> a.enc]
PairsOf(xs) == [j \in 1..Len(xs) |-> <<xs[j].cat, xs[j].t>>]
\* Several properties are RELATIVE statements ("equals the unfiltered export in which ...", "the full export with the columns
\* deleted", "the data lines of the full export"): an event may name a BASE export (e.base = index of an earlier dumps event of
\* the same session).  When the base export itself is not what the specification says (a defect that belongs to C03), the
\* relative statement cannot be judged through the specification and the event is skipped; when the base is right, the
\* specification's value is exactly the transformation of the base.  A base event reports under "base.*", not "dumps.*".
BaseOK(k) == LET b == Log[tid][k] IN b.res.ok /\ GridMatches(b.res.grid, 2, Len(stages), OptsOf(b.args), TRUE)
DumpsChecks(e) ==
  LET a == e.args  o == OptsOf(a)  r == e.res
      pre == IF "role" \in DOMAIN e /\ e.role = "base" THEN "base" ELSE "dumps" IN
  IF "base" \in DOMAIN e /\ ~BaseOK(e.base) THEN <<>>
  ELSE IF ~ValidRange(a.hasfrom, a.from, a.hasto, a.to)
  THEN << <<pre \o ".range_rejected", ~r.ok /\ r.exc = "ValueError">> >>
  ELSE IF (a.hasfrom /\ a.from > 0) \/ a.hasto
  THEN LET af == IF a.hasfrom /\ a.from > 0 THEN a.from ELSE 0
           bt == IF a.hasto THEN a.to ELSE M IN
       IF e.strict
       THEN << <<pre \o ".range_ok", r.ok>>,
               <<pre \o ".range_body", r.ok => BodyLines(r.grid) = (IF af = 0 THEN BodyLines(GridFrom(2, RangeLast(bt), o)) ELSE RangeBody(af, bt, o))>> >>
            \* outside every listed property: the whole range export (reconstructed preamble included) is what the TRANSCRIBED algorithm of
            \* the implementation gives (ExcerptImpl.tla) - also where that is not a well-formed excerpt (finding D15)
            \o (IF af > 0 THEN << <<"impl.range_export_as_transcribed",
                                    LET x == ImplExcerpt(af, a.hasto, bt, o) IN (r.ok = x.ok) /\ (r.ok => r.grid = x.grid)>> >> ELSE <<>>)
       ELSE <<>>
  ELSE IF ExportRaises(o) THEN << <<pre \o ".raises", ~r.ok>> >>
  ELSE << <<pre \o ".ok", r.ok>>,
          <<pre \o ".grid", r.ok => GridMatches(r.grid, 2, Len(stages), o, e.exact)>> >>
\* C12: the malformed cells are exported verbatim in place (judged only where the exported grid has the specified shape)
MalformedInPlace(e) ==
  LET o == OptsOf(e.args)  vs == ViewsFrom(2, Len(stages), o)  g == e.res.grid IN
  (e.res.ok /\ Len(g) = Len(vs) /\ \A r \in 1..Len(g) : Len(g[r]) = Len(vs[r])) =>
     \A r \in 1..Len(g) : \A i \in 1..Len(g[r]) : ("err" \in DOMAIN vs[r][i]) => g[r][i] = vs[r][i].t

\* ---- relations evaluated on LOGGED outputs of earlier events (C01, C04, C10) ----
ResOf(k) == Log[tid][k].res
IsHeaderTextRow(row) == \A i \in 1..Len(row) : StartsWith(row[i], <<STAR, STAR>>)
\* header rule: '**' + encoding prefix + original type, in both grids
HeaderPair(cp, ce, pp, pe) == /\ StartsWith(ce, <<STAR, STAR>> \o pe) /\ StartsWith(cp, <<STAR, STAR>> \o pp)
                              /\ SubSeq(ce, 3 + Len(pe), Len(ce)) = SubSeq(cp, 3 + Len(pp), Len(cp))
\* ga must be gb with F applied to every non-header cell, after dropping the lines F leaves with only null cells
AllNullRow(row) == \A i \in 1..Len(row) : IsNullText(row[i])
\* ga must be gb with F applied to every non-header cell.  A line that F leaves with only null cells may have been dropped or kept
\* (whether such a line is dropped is C05's statement, not C04's): Align pairs the lines of ga with lines of gb greedily and
\* returns the index in gb of every line of ga, or <<0>> when there is no such pairing.
MappedGrid(gb, F(_)) == [r \in 1..Len(gb) |-> IF IsHeaderTextRow(gb[r]) THEN gb[r] ELSE [i \in 1..Len(gb[r]) |-> F(gb[r][i])]]
RowMatches(rowa, rowb, isHeader, pa, pb) ==
  /\ Len(rowa) = Len(rowb)
  /\ \A i \in 1..Len(rowa) : IF isHeader THEN HeaderPair(rowa[i], rowb[i], pa, pb)
                              \* rowb is COMPUTED (F applied to the other grid): 'nothing left' there is a null cell; the real cell must be a placeholder, not empty
                              ELSE NormCell(rowa[i]) = (IF IsNullText(rowb[i]) THEN <<0>> ELSE rowb[i])
RECURSIVE AlignFrom(_, _, _, _, _, _, _, _)
AlignFrom(ga, gb, mapped, pa, pb, r, k, acc) ==
  IF r > Len(gb) THEN (IF k = Len(ga) + 1 THEN acc ELSE <<0>>)
  ELSE IF ~IsHeaderTextRow(gb[r]) /\ AllNullRow(mapped[r])
       THEN (IF k <= Len(ga) /\ Len(ga[k]) = Len(mapped[r]) /\ AllNullRow(ga[k])
             THEN AlignFrom(ga, gb, mapped, pa, pb, r + 1, k + 1, Append(acc, r))
             ELSE AlignFrom(ga, gb, mapped, pa, pb, r + 1, k, acc))
       ELSE IF k <= Len(ga) /\ RowMatches(ga[k], mapped[r], IsHeaderTextRow(gb[r]), pa, pb)
            THEN AlignFrom(ga, gb, mapped, pa, pb, r + 1, k + 1, Append(acc, r))
            ELSE <<0>>
Align(ga, gb, pa, pb, F(_)) == AlignFrom(ga, gb, MappedGrid(gb, F), pa, pb, 1, 1, <<>>)
RowsRelated(ga, gb, pa, pb, F(_)) == Align(ga, gb, pa, pb, F) # <<0>>
\* the characters a duration, pitch or accidental sub-token can consist of (plus the separators of the extended basic form)
MainPartChars == (48..57) \cup {37, 46, 113, 112, 80, 114, 35, 45, 110, 120, 88, 105, 73, 106, 90, 121, 89, 64, 32} \cup (97..103) \cup (65..71)
PerNoteBasic(t) == LET parts == SplitOn(t, SPACE) IN Join([i \in 1..Len(parts) |-> BasicNote(parts[i])], SPACE)
NoLetters(t) == SelectSeq(t, LAMBDA c : c \notin 97..103 /\ c \notin 65..71)
NoteCount(t) == Len(SplitOn(t, SPACE))
RelationChecks(e) ==
  LET a == ResOf(e.a)  b == ResOf(e.b) IN
  IF e.rel = "agn_vs_kern" /\ ~a.ok THEN <<>>      \* an agnostic export may raise (no clef in force): judged at its own dumps event
  ELSE IF ~(a.ok /\ b.ok) THEN << <<"relation.both_succeed_or_both_raise", a.ok = b.ok>> >>
  ELSE CASE e.rel = "plain_vs_ext" ->        \* a = plain, b = extended
              << <<"relation.plain_is_extended_minus_separators", RowsRelated(a.grid, b.grid, EncPrefix(e.ea), EncPrefix(e.eb), StripSep)>> >>
         [] e.rel = "basic_vs_full" ->       \* a = basic extended, b = full extended
              << <<"relation.basic_is_full_minus_signifiers_per_note", RowsRelated(a.grid, b.grid, EncPrefix(e.ea), EncPrefix(e.eb), PerNoteBasic)>>,
                 <<"relation.no_chord_note_lost", LET al == Align(a.grid, b.grid, EncPrefix(e.ea), EncPrefix(e.eb), PerNoteBasic) IN
                        al # <<0>> => \A k \in 1..Len(al) : \A i \in 1..Len(a.grid[k]) :
                            IsHeaderTextRow(b.grid[al[k]]) \/ NoteCount(a.grid[k][i]) = NoteCount(b.grid[al[k]][i])
                                                            \/ (IsNullText(a.grid[k][i]) /\ NoteCount(b.grid[al[k]][i]) = 1)>>,
                 \* ... so a basic note consists of duration / pitch / accidental parts only: no signifier character survives in it
                 <<"relation.basic_carries_no_signifier",
                   LET ea == Log[tid][e.a]  o == OptsOf(ea.args)  vs == ViewsFrom(2, Len(stages), o)  g == a.grid IN
                   (~ea.args.hasfrom /\ ~ea.args.hasto /\ Len(g) = Len(vs) /\ \A r \in 1..Len(g) : Len(g[r]) = Len(vs[r])) =>
                      \A r \in 1..Len(g) : \A i \in 1..Len(g[r]) :
                         ("note" \in DOMAIN vs[r][i] \/ "chord" \in DOMAIN vs[r][i]) =>
                            (IsNullText(g[r][i]) \/ \A part \in SetOf(SplitOn(g[r][i], SPACE)) :
                                                         \* a note of a chord that keeps nothing is printed as the placeholder '*' (in the full form too)
                                                         part = <<STAR>> \/ \A j \in 1..Len(part) : part[j] \in MainPartChars)>> >>
         [] e.rel = "agn_vs_kern" ->         \* a = agnostic plain, b = kern: only pitch letters may differ
              << <<"relation.agnostic_differs_only_in_pitch_letters",
                   /\ Len(a.grid) = Len(b.grid)
                   /\ \A r \in 1..Len(a.grid) : Len(a.grid[r]) = Len(b.grid[r]) /\ \A i \in 1..Len(a.grid[r]) :
                         IF IsHeaderTextRow(b.grid[r]) THEN HeaderPair(a.grid[r][i], b.grid[r][i], EncPrefix(e.ea), EncPrefix(e.eb))
                         ELSE NoLetters(a.grid[r][i]) = NoLetters(b.grid[r][i])>> >>
\* same content, different arrangement of the signifiers (C01 canonicity)
SameContent(n1, n2) == /\ n1.dur = n2.dur /\ n1.p = n2.p /\ n1.rest = n2.rest /\ n1.acc = n2.acc /\ Written(n1) = Written(n2)
ArrangementChecks(e) ==
  << <<"arrangement.same_content", \A j \in 1..Len(e.pairs) : SameContent(e.pairs[j][1], e.pairs[j][2])>>,
     <<"arrangement.no_import_errors", e.nerr = 0>>,
     <<"arrangement.same_normal_form", e.res = ResOf(e.ref)>> >>

FreqPairs(xs0) == LET xs == xs0 IN {<<t, FreqOf(xs, t)>> : t \in SetOf(Texts(xs))}
CatsOfText(xs, t) == {xs[j].cat : j \in {k \in 1..Len(xs) : xs[k].t = t}}
RECURSIVE SumSeq(_)
SumSeq(ns) == IF ns = <<>> THEN 0 ELSE Head(ns) + SumSeq(Tail(ns))
CallChecks(e) ==
  CASE e.op = "dumps"      -> DumpsChecks(e) \o (IF "malformed" \in DOMAIN e THEN << <<"dumps.malformed_verbatim_in_place", MalformedInPlace(e)>> >> ELSE <<>>)
    [] e.op = "same_as"    -> << <<"call.same_result", e.res = Log[tid][e.ref].res>> >>   \* e.g. explicit default = omitted
    [] e.op = "reexport"   -> << <<"reexport.no_import_errors", e.nerr = 0>>,            \* export . import . export = export
                                 <<"reexport.fixed_point", e.res = ResOf(e.ref)>> >>
    [] e.op = "raised"     -> << <<e.was \o ".raised_unexpectedly", FALSE>> >>          \* a query that has no reason to raise did
    [] e.op = "relation"   -> RelationChecks(e)
    [] e.op = "arrangement" -> ArrangementChecks(e)
    [] e.op = "listing"    -> << <<"listing", e.res = PairsOf(Filtered(e.args.incall, SetOf(e.args.inc)))>> >>
    [] e.op = "unique"     -> << <<"unique", e.res = PairsOf(Unique(e.args.incall, SetOf(e.args.inc)))>> >>
    [] e.op = "encodings"  -> << <<"encodings", e.res = Texts(Filtered(e.args.incall, SetOf(e.args.inc)))>> >>
    [] e.op = "uencodings" -> << <<"unique_encodings", e.res = Texts(Unique(e.args.incall, SetOf(e.args.inc)))>> >>
    [] e.op = "freq"       -> LET f == Filtered(e.args.incall, SetOf(e.args.inc)) IN
                              << <<"frequencies.counts", {<<e.res[j][1], e.res[j][2]>> : j \in 1..Len(e.res)} = FreqPairs(f)>>,
                                 <<"frequencies.one_entry_per_text", Len(e.res) = Cardinality(SetOf(Texts(f)))>>,
                                 <<"frequencies.sum_to_listing", SumSeq([j \in 1..Len(e.res) |-> e.res[j][2]]) = Len(f)>>,
                                 <<"frequencies.category", \A j \in 1..Len(e.res) : e.res[j][3] \in CatsOfText(f, e.res[j][1])>> >>
    [] e.op = "meta"       -> << <<"metacomments", e.res = (IF e.args.haskey THEN MetaWithKey(e.args.key) ELSE MetaComments)>> >>
    [] e.op = "mono"       -> << <<"is_monophonic", e.res = Monophonic>> >>
    [] e.op = "spine_types" -> << <<"spine_types", e.res = SpineTypes(e.args.alltypes, SetOf(e.args.types))>> >>
    [] e.op = "spine_ids"  -> << <<"spine_ids", e.res = SpineIds>> >>
    [] e.op = "iter"       -> << <<"iterate", IF M = 0 THEN ~e.res.ok ELSE e.res.ok /\ e.res.v = [j \in 1..M |-> j]>> >>
    [] e.op = "iterpairs"  -> \* overlapping iterations: two iterators advanced alternately, a nested loop (the first 196 pairs), an iteration
                              \* resumed after another complete one.  C07 states the values (1..M); C14 states that the iterations do not
                              \* disturb one another, i.e. each behaves like the single iteration logged next to it
                              LET r == e.res  n == Len(r.single)
                                  prod == [k \in 1..(IF n * n > 196 THEN 196 ELSE n * n) |-> <<r.single[((k - 1) \div n) + 1], r.single[((k - 1) % n) + 1]>>] IN
                              << <<"iterate.two_iterators", IF M = 0 THEN ~r.ok ELSE r.ok /\ r.v = [j \in 1..M |-> <<j, j>>]>>,
                                 <<"iterate.overlapping", IF M = 0 THEN ~r.ok ELSE r.ok /\ r.mid = [j \in 1..M |-> j] /\ r.first \o r.rest = [j \in 1..M |-> j]>>,
                                 <<"call.iterations_independent", r.ok => /\ r.v = [j \in 1..n |-> <<r.single[j], r.single[j]>>]
                                                                          /\ r.nested = prod
                                                                          /\ r.mid = r.single /\ r.first \o r.rest = r.single>> >>
    [] e.op = "mcount"     -> << <<"measures_count", IF M = 0 THEN ~e.res.ok ELSE e.res.ok /\ e.res.v = M>> >>
    [] e.op = "graph"      -> << <<"graph.ok", e.res.ok>>,
                                 <<"graph.ranks", e.res.ok => e.res.ranks = GraphRanks>>,
                                 <<"graph.edges", e.res.ok => ({<<e.res.edges[j][1], e.res.edges[j][2]>> : j \in 1..Len(e.res.edges)} = GraphEdges
                                                               /\ Len(e.res.edges) = Cardinality(GraphEdges))>>,
                                 <<"graph.labels", e.res.ok => e.res.labels = GraphLabels>> >>
    [] e.op = "small"      -> LET r == e.res IN            \* small queries: spine count, leaves, first measure, match, level counts
                              << <<"small.spine_count", r.spine_count = (IF LastHeaderStage = 0 THEN -1 ELSE Len(stages[LastHeaderStage + 1]))>>,
                                 <<"small.leaves", r.leaves = LastStageTexts>>,
                                 <<"small.first_measure", r.first_measure = (IF M = 0 THEN -1 ELSE 1)>>,
                                 <<"small.match_self", r.match_self /\ r.match_core_self>>,
                                 <<"small.match_other", r.match_other = (HeaderTexts = r.other_headers)
                                                        /\ r.match_core_other = (CoreHeaderTexts = SelectSeq(r.other_headers, LAMBDA t : t \in {HKern, HMens}))>>,
                                 <<"small.level_counts", r.levels = LevelCounts>>,
                                 <<"small.header_nodes", r.headers = HeaderTexts>> >>
    [] e.op = "tokenize"   -> \* a tokenizer used directly on the token of a node, under a clef of the caller's choice
                              LET n == At(e.ptr)  o == [DefaultOpts EXCEPT !.enc = e.enc]  v == CellViewCk(n, o, ClefKindOfText(e.clef)) IN
                              << <<"agnostic.tokenizer_under_given_clef", v.ok => (e.res.ok /\ e.res.t = v.t)>> >>
    [] e.op = "opaque"     -> <<>>                                                        \* a call only watched for purity
    [] e.op = "flag"       -> << <<e.name, e.value>> >>                                   \* a comparison between two REAL objects made by the harness
    [] OTHER -> << <<"unknown_op", FALSE>> >>
(* ----------------------- transposition (C15) ---------------------------- *)
\* e = [iv, up, ref, res, back, src_after]: res = dumps(to_transposed(doc)), back = dumps of transposing the result back,
\* src_after = dumps(source) after the call, ref = the event holding dumps(source) before the call
TransposeChecks(e) ==
  LET iv == IvOfName[e.iv]  ts == TransposedStages(iv, e.up) IN
  << <<"transpose.succeeds_when_spellable", AllSpellable(iv, e.up) => e.res.ok>>,
     \* relative to the source export (e.ref): judged when that export is what the specification says
     <<"transpose.result_grid", (BaseOK(e.ref) /\ AllSpellable(iv, e.up) /\ e.res.ok) => On(ts, mstarts)!GridMatches(e.res.grid, 2, Len(stages), DefaultOpts, TRUE)>>,
     <<"transpose.result_grid_agnostic", ("res_agn" \in DOMAIN e /\ BaseOK(e.ref) /\ AllSpellable(iv, e.up) /\ e.res.ok /\ e.res_agn.ok) =>
                                              On(ts, mstarts)!GridMatches(e.res_agn.grid, 2, Len(stages), [DefaultOpts EXCEPT !.enc = "aekern"], TRUE)>>,
     <<"transpose.round_trip_restores_source_export", e.res.ok => (e.back.ok /\ e.back.grid = ResOf(e.ref).grid)>>,
     <<"transpose.source_export_unchanged", e.src_after = ResOf(e.ref)>> >>
TTranspose == /\ IsEvent("transpose") /\ UNCHANGED spVars /\ UNCHANGED snap0
              /\ Note(TransposeChecks(Ev) \o << <<"transpose.source_document_unchanged", Ev.snap = snap0>> >>)

(* ----------------------- concatenation (C19) ---------------------------- *)
\* the state is the import of the JOINED text; e = [ends, pairs, same, exports]: ends[i] = stage of the last line of fragment i,
\* pairs = what concat returned, same = concat's document has the same snapshot as the import of the joined text,
\* exports[i] = dumps(concat document, from_measure = pairs[i][1], to_measure = pairs[i][2])
ConcatChecks(e) ==
  LET n == Len(e.ends)  want == ConcatPairsIn(e.mst, e.ends) IN            \* e.mst: the measure index the implementation reports
  << <<"concat.same_document_as_joined_import", e.same>>,
     <<"concat.one_pair_per_fragment", Len(e.pairs) = n>>,
     <<"concat.pairs", e.pairs = want>>,
     <<"concat.consecutive", \A i \in 1..(Len(e.pairs) - 1) : e.pairs[i + 1][1] = e.pairs[i][2] + 1>>,
     <<"concat.last_is_measure_count", Len(e.pairs) > 0 => (e.pairs[Len(e.pairs)][2] = Len(e.mst)
                                                            /\ ("mcount_after" \in DOMAIN e => e.pairs[Len(e.pairs)][2] = e.mcount_after))>>,
     \* relative to the full export: judged when the full export (e.base) is what the specification says
     <<"concat.pair_addresses_fragment", ("base" \in DOMAIN e /\ ~BaseOK(e.base)) \/ (Len(e.exports) = n /\ \A i \in 1..n :
          e.exports[i].ok /\ DataLines(e.exports[i].grid) = FragmentDataLines(e.ends, i, DefaultOpts))>> >>
TConcat == /\ IsEvent("concat") /\ UNCHANGED spVars /\ UNCHANGED snap0 /\ Note(ConcatChecks(Ev))

(* ----------------------- measure excerpts (C08) ------------------------- *)
\* An excerpt is judged by feeding ITS lines (cells classified by an independent lexer of the text) to the row machine:
\* it must be a behaviour of SpinePaths that ends closed (header first, cell counts consistent with the operators, every
\* spine terminated), and every note must be governed by the signatures the generator's tracker found in the full score.
TXHeader == IsEvent("xheader") /\ Header(Ev.cells) /\ UNCHANGED <<fails, snap0>>
TXRow == IsEvent("xrow") /\ Row(Ev.cells) /\ UNCHANGED <<fails, snap0>>
TXEnd == /\ IsEvent("xend") /\ UNCHANGED spVars /\ UNCHANGED snap0
         /\ Note(<< <<"excerpt.every_spine_terminated", status = "closed">>,
                    <<"excerpt.reimports_without_errors", Ev.reimport_ok /\ Ev.reimport_nerr = 0>>,
                    <<"excerpt.same_governing_signatures", NotesGoverning = Ev.gov>> >>)
\* the excerpt could not even be produced, or its first line is not a header line
TXBad == /\ IsEvent("xbad") /\ UNCHANGED spVars /\ UNCHANGED snap0
         /\ Note(<< <<Ev.what, FALSE>> >>)

\* read-only calls: the document (and the shared defaults) are unchanged - the snapshot digest stays what it was after import
TCall == /\ IsEvent("call") /\ UNCHANGED spVars /\ UNCHANGED snap0
         /\ Note(CallChecks(Ev) \o << <<"call.readonly", Ev.snap = snap0>> >>
                 \o (IF "fresh" \in DOMAIN Ev THEN << <<"call.same_as_on_fresh_import", Ev.fresh>> >> ELSE <<>>)
                 \* a read-only call leaves the process as it found it (the standard output it printed on is still open)
                 \o (IF "intact" \in DOMAIN Ev THEN << <<"call.leaves_process_state_alone", Ev.intact>> >> ELSE <<>>))

TNext == TBlank \/ TGlobal \/ THeader \/ TRow \/ TSurplus \/ TUnsupported \/ TEnd \/ TCall \/ TImportFailed
         \/ TTranspose \/ TConcat \/ TXHeader \/ TXRow \/ TXEnd \/ TXBad
TInit == SpInit /\ tid \in 1..Len(Log) /\ l = 1 /\ fails = <<>> /\ snap0 = ""
Spec == TInit /\ [][TNext]_allVars
Mark == TLCSet(1, [TLCGet(1) EXCEPT ![tid] = IF @.l < l THEN [l |-> l, fails |-> fails] ELSE @])
Verdict == PrintT("VERDICT" \o ToJson([r |-> TLCGet(1)]))
ASSUME TLCSet(1, [t \in 1..Len(Log) |-> [l |-> 0, fails |-> <<>>]])
=============================================================================
