---------------------------- MODULE MC_PitchAgn ----------------------------
(* C10 on the model: laws of the agnostic spelling over 7 clefs x 7 letters x accidentals -2..2 x octaves 0..8 *)
EXTENDS Pitch
VARIABLES k, p
Init == k \in ClefKinds /\ p \in [l : Letters, a : -2..2, o : 0..8]
Next == UNCHANGED <<k, p>>
G2Identity == Agnostic("G2", p) = Spell(p)
\* moving the pitch by d diatonic steps moves the agnostic pitch by d steps
Moved(q, d) == LET x == Dia(q) + d IN [l |-> x % 7, a |-> q.a, o |-> x \div 7]
Translation == \A d \in -9..9 : Dia(Unspell(AgnosticLetters(k, Moved(p, d)))) = Dia(Unspell(AgnosticLetters(k, p))) + d
BottomLineIsE == AgnosticLetters(k, [l |-> ClefBottom(k).l, a |-> 0, o |-> ClefBottom(k).o]) = <<101>>
AccidentalCarried == Agnostic(k, p) = AgnosticLetters(k, p) \o AccCps(p.a) /\ Unspell(Agnostic(k, p)).a = p.a
OctaveMarkIrrelevant == \A m \in ClefMarks : ClefKindOfText(ClefText(k, m)) = k
SamePositionSameSpelling == \A k2 \in ClefKinds : \A q \in [l : Letters, a : {p.a}, o : 0..8] :
                              StaffPos(k2, q) = StaffPos(k, p) => Agnostic(k2, q) = Agnostic(k, p)
=============================================================================
