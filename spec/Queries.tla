------------------------------ MODULE Queries ------------------------------
(***************************************************************************)
(* Token listings and document queries as operators over a SpinePaths      *)
(* state (property C17).                                                   *)
(***************************************************************************)
EXTENDS Export

\* Children of a node in creation order (= order of stage, position).  A spine or header node has its children in the
\* next stage that is not a global comment; only the root and global comments can be parents of a global comment or of
\* the header nodes.
NextSpineStageOf(s) == LET later == {x \in (s + 1)..Len(stages) : ~IsGlobalStage(x)} IN IF later = {} THEN 0 ELSE Min(later)
ChildPtrs(ptr) ==
  IF ptr = <<1, 1>> \/ IsGlobalStage(ptr[1])
  THEN \* global comments, the nodes of header lines, and exclusive interpretations inside later lines (new spines after '*+')
       Flat([x \in 1..Len(stages) |-> IF x <= ptr[1] THEN <<>>
                                       ELSE SelectSeq([i \in 1..Len(stages[x]) |-> <<x, i>>], LAMBDA q : stages[q[1]][q[2]].par = ptr)])
  ELSE LET ns == NextSpineStageOf(ptr[1]) IN
       IF ns = 0 THEN <<>>
       ELSE LET pos == SelectSeq([i \in 1..Len(stages[ns]) |-> i], LAMBDA i : stages[ns][i].par = ptr)
            IN [j \in 1..Len(pos) |-> <<ns, pos[j]>>]
RECURSIVE Dfs(_)
Dfs(ptr) == LET ch == ChildPtrs(ptr) IN <<ptr>> \o Flat([j \in 1..Len(ch) |-> Dfs(ch[j])])
DfsOrder == Tail(Dfs(<<1, 1>>))                                   \* every node except the root, in traversal order

\* the same order stated the way the property words it: the global comments that precede the header, then each spine
\* depth-first, left to right, then all later global comments
HeaderStageIdx == LET hs == {s \in 2..Len(stages) : IsHeaderStage(s)} IN IF hs = {} THEN 0 ELSE Min(hs)
GlobalsBefore == LET h == HeaderStageIdx IN SelectSeq([s \in 1..Len(stages) |-> s], LAMBDA s : IsGlobalStage(s) /\ (h = 0 \/ s < h))
GlobalsAfter == LET h == HeaderStageIdx IN SelectSeq([s \in 1..Len(stages) |-> s], LAMBDA s : IsGlobalStage(s) /\ h # 0 /\ s > h)
WordedOrder ==
  LET h == HeaderStageIdx  gb == GlobalsBefore  ga == GlobalsAfter IN
  [j \in 1..Len(gb) |-> <<gb[j], 1>>]
  \o (IF h = 0 THEN <<>> ELSE Flat([i \in 1..Len(stages[h]) |-> Dfs(<<h, i>>)]))
  \o [j \in 1..Len(ga) |-> <<ga[j], 1>>]

\* the token of a cell as the listing shows it: category and encoding text
TokEncoding(c) == IF c.k = "bar" THEN BarExport(c.bar) ELSE c.t
CatAt(ptr) == LET n == At(ptr) IN IF n.hdr = NoPtr THEN "LINE_COMMENTS" ELSE CatOf(TypeOf(n), n.cell.k)
Listing == LET d == DfsOrder IN [j \in 1..Len(d) |-> [cat |-> CatAt(d[j]), t |-> TokEncoding(At(d[j]).cell)]]
Filtered(incAll, inc) == LET sel == IF incAll THEN Cat ELSE Closure(inc) IN SelectSeq(Listing, LAMBDA x : x.cat \in sel)
RECURSIVE FirstOcc(_, _)
FirstOcc(xs, seen) == IF xs = <<>> THEN <<>>
                      ELSE IF Head(xs).t \in seen THEN FirstOcc(Tail(xs), seen)
                      ELSE <<Head(xs)>> \o FirstOcc(Tail(xs), seen \cup {Head(xs).t})
Unique(incAll, inc) == FirstOcc(Filtered(incAll, inc), {})
Texts(xs) == [j \in 1..Len(xs) |-> xs[j].t]
FreqOf(xs, t) == Cardinality({j \in 1..Len(xs) : xs[j].t = t})
\* '!!' lines in order; with a key only those starting with !!!<key>
MetaComments == LET all == SelectSeq([s \in 1..Len(stages) |-> s], IsGlobalStage) IN [j \in 1..Len(all) |-> stages[all[j]][1].cell.t]
MetaWithKey(key) == SelectSeq(MetaComments, LAMBDA t : StartsWith(t, <<BANG, BANG, BANG>> \o key))
\* monophonic: exactly one **kern spine, no chord, at least one note or rest
KernSpineCount == LET h == HeaderStageIdx IN IF h = 0 THEN 0 ELSE Cardinality({i \in 1..Len(stages[h]) : stages[h][i].cell.t = HKern})
Monophonic == LET ls == Listing IN
              /\ KernSpineCount = 1
              /\ ~ \E j \in 1..Len(ls) : ls[j].cat = "CHORD"
              /\ \E j \in 1..Len(ls) : ls[j].cat = "NOTE_REST"
\* get_spine_ids: the spine id of every header token in listing order (one per spine; a later section or an added spine counts again)
HeaderPtrs == SelectSeq(DfsOrder, LAMBDA q : At(q).cell.k = "hdr")
SpineIds == LET hp == HeaderPtrs IN [j \in 1..Len(hp) |-> hp[j][2] - 1]
\* spine_types(doc, headers): the header line of the projection on those types
\* (the FIRST line of the export that keeps only the headers of the selected types: for a document with one header line that is the
\*  selected cells of that line; when the selected types only appear in a later section, or in the line that names an added spine, it is
\*  that later line)
SpineTypes(allTypes, types) ==
  LET o == [DefaultOpts EXCEPT !.types = (IF allTypes THEN KnownHeaders ELSE types), !.cats = {"HEADER"}]
      g == ExportGrid(o)
  IN IF g = <<>> THEN <<>> ELSE g[1]

(* ------------- small document queries (no listed property names them) ------------- *)
\* get_spine_count / get_header_stage: the nodes of the LAST header line; get_leaves: the nodes of the last stage;
\* get_first_measure: 1 when there is a measure; Document.match: same header texts in listing order (optionally core spines only)
HeaderTexts == LET hp == HeaderPtrs IN [j \in 1..Len(hp) |-> At(hp[j]).cell.t]
CoreHeaderTexts == SelectSeq(HeaderTexts, LAMBDA t : t \in {HKern, HMens})
LastStageTexts == [i \in 1..Len(stages[Len(stages)]) |-> TokEncoding(stages[Len(stages)][i].cell)]
\* Node.count_nodes_by_stage from the root: nodes per LEVEL of the tree (a global comment is one level below the previous one)
RECURSIVE DepthOf(_)
DepthOf(ptr) == IF ptr = <<1, 1>> THEN 0 ELSE 1 + DepthOf(At(ptr).par)
LevelCounts == LET d == DfsOrder  depths == [j \in 1..Len(d) |-> DepthOf(d[j])]
                   maxd == IF d = <<>> THEN 0 ELSE Max({depths[j] : j \in 1..Len(d)}) IN
               [k \in 1..(maxd + 1) |-> IF k = 1 THEN 1 ELSE Cardinality({j \in 1..Len(d) : depths[j] = k - 1})]

(* ------------- the signatures governing every note, in row-major order (C08) ------------- *)
SigTextAt(p) == IF p = NoPtr THEN <<>> ELSE At(p).cell.t
NotesGoverning == LET ptrs == Flat([s \in 1..Len(stages) |-> SelectSeq([i \in 1..Len(stages[s]) |-> <<s, i>>],
                                         LAMBDA q : s > 1 /\ stages[q[1]][q[2]].cell.k = "note")])
                  IN [j \in 1..Len(ptrs) |-> LET n == At(ptrs[j]) IN <<SigTextAt(n.sig.clef), SigTextAt(n.sig.key), SigTextAt(n.sig.time)>>]

(* --------------------- the graph export (GraphvizExporter), up to renaming of the nodes --------------------- *)
\* one rank per stage holding its nodes in order; one edge parent -> child per node other than the root; every node labelled
\* with its stage, category, header node and last spine operator
AllNodePtrs == UNION {{<<s, i>> : i \in 1..Len(stages[s])} : s \in 1..Len(stages)}
GraphRanks == [s \in 1..Len(stages) |-> Len(stages[s])]
GraphEdges == {<<At(q).par, q>> : q \in AllNodePtrs \ {<<1, 1>>}}
GraphNodeLabel(q) == <<q[1] - 1, (IF q = <<1, 1>> THEN "Non defined category" ELSE CatAt(q)), At(q).hdr, At(q).lastop>>
GraphLabels == [s \in 1..Len(stages) |-> [i \in 1..Len(stages[s]) |-> GraphNodeLabel(<<s, i>>)]]

(* --------------------- page bounding boxes (Document.page_bounding_boxes) --------------------- *)
\* A *xywh-<page>:x,y,w,h interpretation (in a spine of any type) contributes a box to its page.  The index keeps, per page
\* in order of first appearance, the union of its boxes and the measure span: from = measures open when the page first
\* appears, to = measures open when a box of the page was last seen, and the page whose FIRST box came last keeps growing
\* with every new measure.  (History-dependent importer state: Importer.last_bounding_box / last_measure_number.)
RECURSIVE ParseNat(_)
ParseNat(ds) == IF ds = <<>> THEN 0 ELSE 10 * ParseNat(SubSeq(ds, 1, Len(ds) - 1)) + (ds[Len(ds)] - 48)
BoxOfText(t) ==           \* t = *xywh-<page>:x,y,w,h
  LET body == SubSeq(t, 7, Len(t))  parts == SplitOn(body, 58)  nums == SplitOn(parts[2], 44)
      x == ParseNat(nums[1])  y == ParseNat(nums[2])  w == ParseNat(nums[3])  h == ParseNat(nums[4])
  IN [page |-> parts[1], x0 |-> x, y0 |-> y, x1 |-> x + w, y1 |-> y + h]
MinOf(a, b) == IF a < b THEN a ELSE b
MaxOf(a, b) == IF a > b THEN a ELSE b
\* one box into the index; acc = [pages : Seq(record), lastp : index of the page whose first box came last, m : measures so far]
AddBox(acc, b) ==
  LET idx == {j \in 1..Len(acc.pages) : acc.pages[j].page = b.page} IN
  IF idx = {} THEN [acc EXCEPT !.pages = Append(@, [page |-> b.page, x0 |-> b.x0, y0 |-> b.y0, x1 |-> b.x1, y1 |-> b.y1, from |-> acc.m, to |-> acc.m]),
                               !.lastp = Len(acc.pages) + 1]
  ELSE LET j == CHOOSE k \in idx : TRUE IN
       [acc EXCEPT !.pages[j] = [@ EXCEPT !.x0 = MinOf(@, b.x0), !.y0 = MinOf(@, b.y0), !.x1 = MaxOf(@, b.x1), !.y1 = MaxOf(@, b.y1), !.to = acc.m]]
RECURSIVE AddBoxes(_, _, _)
AddBoxes(acc, row, i) == IF i > Len(row) THEN acc
                         ELSE AddBoxes(IF row[i].cell.k = "bbox" THEN AddBox(acc, BoxOfText(row[i].cell.t)) ELSE acc, row, i + 1)
RECURSIVE PageScan(_, _)
PageScan(s, acc) ==
  IF s > Len(stages) THEN acc
  ELSE IF ~IsSpineStage(s) THEN PageScan(s + 1, acc)
  ELSE LET a1 == AddBoxes(acc, stages[s], 1)
           opens == \E j \in 1..Len(mstarts) : mstarts[j] = s
           a2 == IF opens THEN (IF a1.lastp = 0 THEN [a1 EXCEPT !.m = @ + 1]
                                ELSE [a1 EXCEPT !.m = @ + 1, !.pages[a1.lastp].to = a1.m + 1])
                 ELSE a1
       IN PageScan(s + 1, a2)
PageIndex == LET r == PageScan(2, [pages |-> <<>>, lastp |-> 0, m |-> 0]).pages IN
             [j \in 1..Len(r) |-> <<r[j].page, r[j].x0, r[j].y0, r[j].x1, r[j].y1, r[j].from, r[j].to>>]
=============================================================================
