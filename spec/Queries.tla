------------------------------ MODULE Queries ------------------------------
(***************************************************************************)
(* Token listings and document queries as operators over a SpinePaths      *)
(* state (property C17).                                                   *)
(***************************************************************************)
EXTENDS Export

\* Children of a node in creation order (= order of stage, position).  A spine or header node has its children in the
\* next stage that is not a global comment; only the root and global comments can be parents of a global comment or of
\* the header nodes.
NextSpineStageOf(s) == LET later == {x \in (s + 1)..Len(stages) : ~IsGlobalStage(x)} IN IF later = {} THEN 0 ELSE Min(later)
ChildPtrs(ptr) ==
  IF ptr = <<1, 1>> \/ IsGlobalStage(ptr[1])
  THEN LET cand == SelectSeq([x \in 1..Len(stages) |-> x],
                             LAMBDA x : x > ptr[1] /\ (IsGlobalStage(x) \/ IsHeaderStage(x)) /\ stages[x][1].par = ptr)
       IN Flat([j \in 1..Len(cand) |-> [i \in 1..Len(stages[cand[j]]) |-> <<cand[j], i>>]])
  ELSE LET ns == NextSpineStageOf(ptr[1]) IN
       IF ns = 0 THEN <<>>
       ELSE LET pos == SelectSeq([i \in 1..Len(stages[ns]) |-> i], LAMBDA i : stages[ns][i].par = ptr)
            IN [j \in 1..Len(pos) |-> <<ns, pos[j]>>]
RECURSIVE Dfs(_)
Dfs(ptr) == LET ch == ChildPtrs(ptr) IN <<ptr>> \o Flat([j \in 1..Len(ch) |-> Dfs(ch[j])])
DfsOrder == Tail(Dfs(<<1, 1>>))                                   \* every node except the root, in traversal order

\* the same order stated the way the property words it: the global comments that precede the header, then each spine
\* depth-first, left to right, then all later global comments
HeaderStageIdx == LET hs == {s \in 2..Len(stages) : IsHeaderStage(s)} IN IF hs = {} THEN 0 ELSE Min(hs)
GlobalsBefore == LET h == HeaderStageIdx IN SelectSeq([s \in 1..Len(stages) |-> s], LAMBDA s : IsGlobalStage(s) /\ (h = 0 \/ s < h))
GlobalsAfter == LET h == HeaderStageIdx IN SelectSeq([s \in 1..Len(stages) |-> s], LAMBDA s : IsGlobalStage(s) /\ h # 0 /\ s > h)
WordedOrder ==
  LET h == HeaderStageIdx  gb == GlobalsBefore  ga == GlobalsAfter IN
  [j \in 1..Len(gb) |-> <<gb[j], 1>>]
  \o (IF h = 0 THEN <<>> ELSE Flat([i \in 1..Len(stages[h]) |-> Dfs(<<h, i>>)]))
  \o [j \in 1..Len(ga) |-> <<ga[j], 1>>]

\* the token of a cell as the listing shows it: category and encoding text
TokEncoding(c) == IF c.k = "bar" THEN BarExport(c.bar) ELSE c.t
CatAt(ptr) == LET n == At(ptr) IN IF n.hdr = NoPtr THEN "LINE_COMMENTS" ELSE CatOf(TypeOf(n), n.cell.k)
Listing == LET d == DfsOrder IN [j \in 1..Len(d) |-> [cat |-> CatAt(d[j]), t |-> TokEncoding(At(d[j]).cell)]]
Filtered(incAll, inc) == LET sel == IF incAll THEN Cat ELSE Closure(inc) IN SelectSeq(Listing, LAMBDA x : x.cat \in sel)
RECURSIVE FirstOcc(_, _)
FirstOcc(xs, seen) == IF xs = <<>> THEN <<>>
                      ELSE IF Head(xs).t \in seen THEN FirstOcc(Tail(xs), seen)
                      ELSE <<Head(xs)>> \o FirstOcc(Tail(xs), seen \cup {Head(xs).t})
Unique(incAll, inc) == FirstOcc(Filtered(incAll, inc), {})
Texts(xs) == [j \in 1..Len(xs) |-> xs[j].t]
FreqOf(xs, t) == Cardinality({j \in 1..Len(xs) : xs[j].t = t})
\* '!!' lines in order; with a key only those starting with !!!<key>
MetaComments == LET all == SelectSeq([s \in 1..Len(stages) |-> s], IsGlobalStage) IN [j \in 1..Len(all) |-> stages[all[j]][1].cell.t]
MetaWithKey(key) == SelectSeq(MetaComments, LAMBDA t : StartsWith(t, <<BANG, BANG, BANG>> \o key))
\* monophonic: exactly one **kern spine, no chord, at least one note or rest
KernSpineCount == LET h == HeaderStageIdx IN IF h = 0 THEN 0 ELSE Cardinality({i \in 1..Len(stages[h]) : stages[h][i].cell.t = HKern})
Monophonic == LET ls == Listing IN
              /\ KernSpineCount = 1
              /\ ~ \E j \in 1..Len(ls) : ls[j].cat = "CHORD"
              /\ \E j \in 1..Len(ls) : ls[j].cat = "NOTE_REST"
SpineIds == LET h == HeaderStageIdx IN IF h = 0 THEN <<>> ELSE [i \in 1..Len(stages[h]) |-> i - 1]
\* spine_types(doc, headers): the header line of the projection on those types
SpineTypes(allTypes, types) ==
  LET h == HeaderStageIdx IN
  IF h = 0 THEN <<>>
  ELSE LET hs == SelectSeq(stages[h], LAMBDA n : n.cell.t \in (IF allTypes THEN KnownHeaders ELSE types))
       IN [i \in 1..Len(hs) |-> hs[i].cell.t]
=============================================================================
