----------------------------- MODULE MC_FileCli -----------------------------
(* All action sequences of length <= MaxLen on three small initial trees. *)
EXTENDS FileCli, Json
CONSTANT MaxLen
VARIABLE hist
P(d, s, x) == <<d, s, x>>
Tree(assign) == [p \in Paths |-> IF p \in DOMAIN assign THEN assign[p] ELSE ABSENT]
T1 == Tree(P("", "a", "krn") :> "K1" @@ P("", "b", "kern") :> "K2" @@ P("", "c", "ekrn") :> "E1" @@ P("sub", "d", "krn") :> "K2"
           @@ P("sub", "e", "ekern") :> "E2" @@ P("", "x", "txt") :> "T" @@ P("sub", "a", "krn") :> "K2")   \* the same file name in two directories
T2 == Tree(P("", "a", "krn") :> "KBAD" @@ P("", "b", "krn") :> "K1" @@ P("sub", "d", "krn") :> "K1" @@ P("", "x", "txt") :> "T")
T3 == Tree(P("", "c", "ekrn") :> "E2" @@ P("sub", "e", "ekrn") :> "E1")
Init == fs \in {T1, T2, T3} /\ last = NoAct /\ hist = << [init |-> CHOOSE i \in 1..3 : fs = <<T1, T2, T3>>[i]] >>
DumpTargets == {P("new/deep", "f", "krn"), P("", "a", "krn"), P("sub", "f", "krn")}
Rec(a) == hist' = Append(hist, a)
Next ==
  /\ Len(hist) <= MaxLen
  /\ \/ \E p \in Paths : \E ho \in BOOLEAN : K2EFile(p, ho, P("", "out", "ekrn")) /\ Rec([act |-> "k2e_file", p |-> p, out |-> ho, rec |-> FALSE])
     \/ \E p \in Paths : \E ho \in BOOLEAN : E2KFile(p, ho, P("", "out", "krn")) /\ Rec([act |-> "e2k_file", p |-> p, out |-> ho, rec |-> FALSE])
     \/ \E d \in {"", "sub"} : \E r \in BOOLEAN : K2EDir(d, r) /\ Rec([act |-> "k2e_dir", p |-> <<d, "", "">>, out |-> FALSE, rec |-> r])
     \/ \E d \in {"", "sub"} : \E r \in BOOLEAN : E2KDir(d, r) /\ Rec([act |-> "e2k_dir", p |-> <<d, "", "">>, out |-> FALSE, rec |-> r])
     \/ \E p \in DumpTargets : Dump(p) /\ Rec([act |-> "dump", p |-> p, out |-> FALSE, rec |-> FALSE])
     \/ DumpOpts(P("sub", "f", "txt")) /\ Rec([act |-> "dump_opts", p |-> P("sub", "f", "txt"), out |-> FALSE, rec |-> FALSE])
     \/ Redump(P("new/deep", "f", "krn")) /\ Rec([act |-> "redump", p |-> P("new/deep", "f", "krn"), out |-> FALSE, rec |-> FALSE])
     \/ \E p \in {P("sub", "f", "txt"), P("", "x", "txt")} : DumpEmpty(p) /\ Rec([act |-> "dump_empty", p |-> p, out |-> FALSE, rec |-> FALSE])
Spec == Init /\ [][Next]_<<fs, last, hist>>
\* after a directory run every convertible file in scope has its converted twin (errors do not stop the run)
ErrorsDoNotStopTheRun == last.act = "k2e_dir" => \A p \in InScope(last.dir, last.rec, KernSufs) : K2E(fs[p]) # ERR => fs[WithSuf(p, "ekrn")] \in {"E1", "E2"}
Emit == IF Len(hist) = MaxLen + 1 THEN PrintT("VP" \o ToJson([hist |-> hist])) ELSE TRUE
=============================================================================
