SPECIFICATION MCSpec
CONSTANTS
  MaxLines = 5
  MaxLive = 3
  HeaderRows <- HR2
  Lean = FALSE
  Ext = FALSE
INVARIANT InvLive
INVARIANT InvSignatures
INVARIANT InvClosed
INVARIANT InvParent
INVARIANT InvHeader
CHECK_DEADLOCK FALSE
