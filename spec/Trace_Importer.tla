---------------------------- MODULE Trace_Importer ----------------------------
(* Validates recorded histories of import_token calls on ONE real importer object (per log) against ImporterHistory.   *)
(* Log = sequence of events: first {"ev":"new","ht":header text}, then {"ev":"import","cell":C,"res":{ok,cat,enc,held}} *)
EXTENDS ImporterHistory, TLCExt, Json, IOUtils
VARIABLES tid, l, fails
Log == JsonDeserialize(IOEnv.TRACE_FILE)
Ev == Log[tid][l]
tvars == <<ht, seen, pending, outcome, tid, l, fails>>
Note(checks) == LET bad == SelectSeq(checks, LAMBDA c : ~c[2]) IN fails' = fails \o [j \in 1..Len(bad) |-> <<l, bad[j][1]>>]
CellTextOK(c) == CASE c.k = "note" -> c.t = NoteText(c.n) [] c.k = "chord" -> c.t = ChordText(c.ns) [] c.k = "bar" -> c.t = BarText(c.bar) [] OTHER -> TRUE
TNew == /\ l = 1 /\ Ev.ev = "new" /\ l' = 2 /\ UNCHANGED <<tid, fails>>
        /\ ht' = Ev.ht /\ UNCHANGED <<seen, pending, outcome>>
TImport == /\ l > 1 /\ l <= Len(Log[tid]) /\ Ev.ev = "import" /\ l' = l + 1 /\ UNCHANGED tid
           /\ Import(IF Ev.cell.k = "fuzz" THEN [k |-> "err", t |-> Ev.cell.t] ELSE Ev.cell)
           /\ LET o == IF Ev.cell.k = "fuzz" THEN [ok |-> Ev.res.ok, cat |-> Ev.res.cat, enc |-> Ev.res.enc]   \* no class oracle for fuzzed text
                        ELSE Outcome(ht, Ev.cell)
                  r == Ev.res IN
              Note(<< <<"import.generator_text", CellTextOK(Ev.cell)>>,
                      \* history independence, stated against the implementation itself: the same text on a fresh importer object
                      <<"import.same_as_on_fresh_importer", "fresh" \in DOMAIN Ev =>
                            (r.ok = Ev.fresh.ok /\ (r.ok => (r.cat = Ev.fresh.cat /\ r.enc = Ev.fresh.enc)))>>,
                      <<"import.never_raises_outside_kern", ht \notin KernLike => r.ok>>,
                      <<"import.outcome_ok", r.ok = o.ok>>,
                      <<"import.category", (r.ok /\ o.ok) => r.cat = o.cat>>,
                      <<"import.text", (r.ok /\ o.ok) => r.enc = o.enc>>,
                      <<"import.nothing_held_after_valid_token", (r.ok /\ o.ok) => r.held = 0>>,
                      \* shared structure is recognised exactly as the real **kern importer recognises the same text
                      <<"import.shared_as_in_kern", ("kern" \in DOMAIN Ev /\ Ev.cell.k \in SharedClasses) =>
                                                      (Ev.kern.ok /\ r.ok /\ r.cat = Ev.kern.cat /\ r.enc = Ev.kern.enc)>> >>)
Init == tid \in 1..Len(Log) /\ l = 1 /\ fails = <<>> /\ ht = <<>> /\ seen = <<>> /\ pending = 0 /\ outcome = [ok |-> TRUE, cat |-> "NONE", enc |-> <<>>]
Spec == Init /\ [][TNew \/ TImport]_tvars
Mark == TLCSet(1, [TLCGet(1) EXCEPT ![tid] = IF @.l < l THEN [l |-> l, fails |-> fails] ELSE @])
Verdict == PrintT("VERDICT" \o ToJson([r |-> TLCGet(1)]))
ASSUME TLCSet(1, [t \in 1..Len(Log) |-> [l |-> 0, fails |-> <<>>]])
=============================================================================
