------------------------------- MODULE Export -------------------------------
(***************************************************************************)
(* The exporter as operators over a SpinePaths state (properties C01, C03, *)
(* C04, C05, C06, C07, C10, C13).                                          *)
(* Options:  o == [types : set of header texts, allids : BOOLEAN,          *)
(*                 ids : set of spine ids, cats : set of categories,       *)
(*                 enc : "kern" | "ekern" | "bkern" | "bekern" | "akern" | *)
(*                       "aekern"]                                         *)
(* A grid is a sequence of rows, a row a sequence of cell texts.           *)
(***************************************************************************)
EXTENDS SpinePaths

Encodings == {"kern", "ekern", "bkern", "bekern", "akern", "aekern"}
Extended == {"ekern", "bekern", "aekern"}
Agnostics == {"akern", "aekern"}
EncPrefix(e) == CASE e = "kern" -> <<>> [] e = "ekern" -> <<101>> [] e = "bkern" -> <<98>> [] e = "bekern" -> <<98, 101>>
                  [] e = "akern" -> <<97>> [] e = "aekern" -> <<97, 101>>
DefaultOpts == [types |-> KnownHeaders, allids |-> TRUE, ids |-> {}, cats |-> Cat, enc |-> "kern"]

Visible(n, o) == /\ n.hdr # NoPtr
                 /\ TypeOf(n) \in o.types
                 /\ (o.allids \/ SpineOf(n) \in o.ids)

\* the clef in force for a node, as a clef kind ("NONE" when no clef precedes it on its path)
ClefKindAt(n) == IF n.sig.clef = NoPtr THEN "NONE" ELSE ClefKindOfText(At(n.sig.clef).cell.t)

IsHidden(c) == c.k = "bar" /\ c.bar.hid
Placeholder(cat) == IF cat \in SignatureCats THEN <<STAR>> ELSE <<DOT>>

\* the token text before the encoding-specific tokenizer (what Token.export prints in the extended form)
TokenText(c) == IF c.k = "bar" THEN BarExport(c.bar) ELSE c.t

\* result of one cell: [ok |-> BOOLEAN, t |-> text].  ok = FALSE: the export raises
ApplyEnc(t, e) == CASE e \in {"ekern", "aekern"} -> t
                    [] e \in {"kern", "akern"} -> Plain(t)
                    [] e = "bekern" -> BasicExt(t)
                    [] e = "bkern" -> BasicPlain(t)
\* ck: the clef kind the cell is rendered under (the clef in force for the node - or another one, when a tokenizer is handed
\* a clef of the caller's choice)
CellViewCk(n, o, ck) ==
  LET c == n.cell  ht == TypeOf(n)  cat == CatOf(ht, c.k)
      agn == o.enc \in Agnostics
      isNote == IsNoteObject(ht, c.k)  isChord == IsChordObject(ht, c.k)
  IN
  \* C03: barlines keep their type and lose only the measure number - also the ones written as hidden ('=1-'); kernpy
  \* prints a null cell for those (recorded finding, class hidden_barline)
  IF ~isNote /\ cat \notin o.cats THEN [ok |-> TRUE, t |-> Placeholder(cat)]
  ELSE IF agn /\ ck = "BAD" THEN [ok |-> FALSE, t |-> <<>>]             \* an unsupported clef in force: every token raises
  ELSE IF c.k = "hdr" THEN [ok |-> TRUE, t |-> <<STAR, STAR>> \o EncPrefix(o.enc) \o SubSeq(c.t, 3, Len(c.t))]
  ELSE IF isNote THEN
         (IF agn /\ NeedsClef(c.n, o.cats) /\ ck = "NONE" THEN [ok |-> FALSE, t |-> <<>>]
          ELSE LET x == ApplyEnc(IF agn THEN SingleAgnExt(c.n, o.cats, ck) ELSE SingleExt(c.n, o.cats), o.enc)
               IN [ok |-> TRUE, t |-> IF x = <<>> THEN Placeholder(cat) ELSE x, note |-> TRUE])
  ELSE IF isChord THEN
         (IF agn /\ ck = "NONE" /\ \E i \in 1..Len(c.ns) : NeedsClef(c.ns[i], o.cats) THEN [ok |-> FALSE, t |-> <<>>]
          ELSE LET x == ApplyEnc(IF agn THEN ChordAgnExt(c.ns, o.cats, ck) ELSE ChordExt(c.ns, o.cats), o.enc)
               IN [ok |-> TRUE, t |-> IF x = <<>> THEN Placeholder(cat) ELSE x, chord |-> TRUE, ns |-> c.ns, ck |-> ck])
  ELSE LET x == ApplyEnc(TokenText(c), o.enc) IN
       IF c.k = "err" THEN [ok |-> TRUE, t |-> IF x = <<>> THEN Placeholder(cat) ELSE x, err |-> TRUE]
       ELSE [ok |-> TRUE, t |-> IF x = <<>> THEN Placeholder(cat) ELSE x]

CellView(n, o) == CellViewCk(n, o, ClefKindAt(n))

VisibleNodes(s, o) == SelectSeq(stages[s], LAMBDA n : Visible(n, o))
RowViews(s, o) == LET vis == VisibleNodes(s, o) IN [i \in 1..Len(vis) |-> CellView(vis[i], o)]
RowTexts(s, o) == LET v == RowViews(s, o) IN [i \in 1..Len(v) |-> v[i].t]
Nullish == {<<DOT>>, <<STAR>>, <<>>}
RowDropped(row) == row = <<>> \/ \A i \in 1..Len(row) : row[i] \in Nullish
RowRaises(s, o) == LET v == RowViews(s, o) IN \E i \in 1..Len(v) : ~v[i].ok

RECURSIVE GridFrom(_, _, _)
GridFrom(s, last, o) == IF s > last THEN <<>>
                        ELSE LET row == RowTexts(s, o) IN (IF RowDropped(row) THEN <<>> ELSE <<row>>) \o GridFrom(s + 1, last, o)
ExportGrid(o) == GridFrom(2, Len(stages), o)                       \* the whole document
ExportRaises(o) == \E s \in 2..Len(stages) : RowRaises(s, o)

\* comparison up to the spelling of null cells (I1): '.', '*', '' and cells made only of those and spaces are one value
IsNullText(t) == \A i \in 1..Len(t) : t[i] \in {DOT, STAR, SPACE}
\* (a cell that is EMPTY is not a null token: a placeholder is at least one character - an empty column is not a legal cell)
NormCell(t) == IF t # <<>> /\ IsNullText(t) THEN <<0>> ELSE t
NormGrid(g) == [r \in 1..Len(g) |-> [i \in 1..Len(g[r]) |-> NormCell(g[r][i])]]
GridEq(a, b) == NormGrid(a) = NormGrid(b)

(* Comparing a REAL grid with the specification.  Every cell must be the specified text, except that a chord note may   *)
(* carry any signifier set between its own and the union of the chord's (C03: "chord notes at least their own"): the   *)
(* main sub-tokens must be exactly right, the decorations sorted, distinct, a superset of the note's own and a subset  *)
(* of the union.                                                                                                         *)
StrictlySorted(as) == \A i \in 1..(Len(as) - 1) : LexLess(as[i], as[i + 1])
ChordNoteOK(real, n, dur, union, o, ck) ==
  LET agn == o.enc \in Agnostics
      main == IF agn THEN AgnMainParts(n, dur, o.cats, ck) ELSE MainParts(n, dur, o.cats)
      own == IF "DECORATION" \in o.cats THEN OwnSigs(n) ELSE {}
      all == IF "DECORATION" \in o.cats THEN union ELSE {}
  IN
  IF o.enc \in {"bekern", "bkern"} THEN real = ApplyEnc(NoteExt(n, dur, {}, o.cats), o.enc) \/ real = ApplyEnc(Assemble(main, <<>>), o.enc)
  ELSE IF o.enc \in {"ekern", "aekern"}
  THEN LET parts == SplitOn(real, MID)  decos == Tail(parts) IN
       /\ parts[1] = Join(main, AT) \/ (main = <<>> /\ decos = <<>> /\ real = <<STAR>>)
       /\ StrictlySorted(decos) /\ own \subseteq SetOf(decos) /\ SetOf(decos) \subseteq all
  ELSE LET m == Flat(main)  rest == IF Len(real) >= Len(m) THEN SubSeq(real, Len(m) + 1, Len(real)) ELSE <<>>
           decos == [i \in 1..Len(rest) |-> <<rest[i]>>] IN                       \* plain encodings: single-character atoms
       \/ (main = <<>> /\ all = {} /\ real = <<STAR>>)
       \/ /\ StartsWith(real, m)
          /\ StrictlySorted(decos) /\ own \subseteq SetOf(decos) /\ SetOf(decos) \subseteq all
ChordOK(real, v, o) ==
  LET notes == SplitOn(real, SPACE) IN
  \/ real = v.t
  \/ /\ Len(notes) = Len(v.ns)
     /\ \A i \in 1..Len(notes) : ChordNoteOK(notes[i], v.ns[i], EffDur(v.ns, i), ChordSigs(v.ns), o, v.ck)
CellMatches(real, v, o, exact) ==
  IF "chord" \in DOMAIN v THEN ChordOK(real, v, o)
  ELSE IF exact THEN real = v.t ELSE NormCell(real) = NormCell(v.t)
RECURSIVE ViewsFrom(_, _, _)
ViewsFrom(s, last, o) == IF s > last THEN <<>>
                         ELSE LET vs == RowViews(s, o)  row == [i \in 1..Len(vs) |-> vs[i].t] IN
                              (IF RowDropped(row) THEN <<>> ELSE <<vs>>) \o ViewsFrom(s + 1, last, o)
GridMatches(g, first, last, o, exact) ==
  LET vs == ViewsFrom(first, last, o) IN
  /\ Len(g) = Len(vs)
  /\ \A r \in 1..Len(g) : /\ Len(g[r]) = Len(vs[r])
                           /\ \A i \in 1..Len(g[r]) : CellMatches(g[r][i], vs[r][i], o, exact)

(* ---------------------------- measure ranges --------------------------- *)
M == Len(mstarts)
ValidRange(hasFrom, a, hasTo, b) == /\ (hasFrom => a >= 0) /\ (hasTo => b <= M) /\ ((hasFrom /\ hasTo) => b >= a)
\* body stages of measures a..b: from the row that opens a through the barline row that closes b (= opens b+1)
RangeFirst(a) == mstarts[a]
RangeLast(b) == IF b < M THEN mstarts[b + 1] ELSE Len(stages)
\* lines of a grid that are neither interpretations nor comments: data lines and barlines
IsInterpRow(row) == \A i \in 1..Len(row) : row[i] # <<>> /\ row[i][1] = STAR
IsCommentRow(row) == \A i \in 1..Len(row) : row[i] # <<>> /\ row[i][1] = BANG
BodyLines(g) == SelectSeq(g, LAMBDA row : ~IsInterpRow(row) /\ ~IsCommentRow(row))
IsBarRow(row) == \E i \in 1..Len(row) : row[i] # <<>> /\ row[i][1] = EQ
DataLines(g) == SelectSeq(BodyLines(g), LAMBDA row : ~IsBarRow(row))
RangeBody(a, b, o) == BodyLines(GridFrom(RangeFirst(a), RangeLast(b), o))
=============================================================================
