----------------------------- MODULE Trace_Pitch -----------------------------
(* Validates recorded answers of kernpy's pitch code against Pitch.tla (binding for C09, C10, C16).    *)
(* One record per call (with its arguments and result as code points); verdicts are total.              *)
EXTENDS Pitch, TLCExt, Json, IOUtils, SequencesExt
VARIABLES tid, l, fails
Log == JsonDeserialize(IOEnv.TRACE_FILE)
Ev == Log[tid][l]
SetOf(s) == {s[i] : i \in DOMAIN s}
P(e) == [l |-> e.l, a |-> e.a, o |-> e.o]
\* the 39-entry chroma table as a sequence of <<name, value>> in value order
ChromaIdx == SetToSortSeq({c \in 0..39 : TableName(c)[1] # -1}, <)
ChromaTable == [i \in 1..Len(ChromaIdx) |-> <<NameStr(TableName(ChromaIdx[i])[1], TableName(ChromaIdx[i])[2]), ChromaIdx[i]>>]
Expected(e) ==
  CASE e.op = "chromatable" -> e.res = ChromaTable
    [] e.op = "interval"    -> e.name \in IvNames /\ e.val = I40(IvOfName[e.name])
    [] e.op = "intervalnames" -> SetOf(e.res) = IvNames /\ Len(e.res) = 40
    [] e.op = "transpose"   ->
         LET p == P(e)  iv == IvOfName[e.iv]  q == RefT(p, iv, e.up) IN
         /\ e.inp = Spell(p)
         /\ Spellable(q) => (e.ok /\ e.out = Spell(q))          \* letter by diatonic size, sound by semitone size
         /\ e.ok => (e.backok /\ e.back = e.inp)                  \* the inverse returns the original spelling
    [] e.op = "compose"     ->                                    \* a fourth then a fifth is an octave; an octave keeps the name
         LET p == P(e) IN
         /\ e.inp = Spell(p)
         /\ e.ok8 /\ e.out8 = Spell([p EXCEPT !.o = @ + (IF e.up THEN 1 ELSE -1)])
         /\ e.ok4 => (e.ok45 /\ e.out45 = e.out8)
    [] e.op = "codec"       ->
         LET p == P(e) IN
         /\ e.inp = Spell(p)
         /\ e.name0 = NameStr(p.l, p.a) /\ e.oct0 = p.o           \* import: right letter, alteration, octave
         /\ e.out1 = e.inp /\ e.name1 = e.name0 /\ e.oct1 = e.oct0   \* export: same spelling, object untouched
         /\ e.out2 = e.inp /\ e.name2 = e.name0 /\ e.oct2 = e.oct0   \* ... also the second time
    [] e.op = "agn"         ->
         /\ e.clef = ClefText(e.k, e.mark) /\ e.inp = Spell(P(e))
         /\ e.ok /\ e.out = Agnostic(e.k, P(e))
    [] e.op = "objstep"     ->                                \* one step of a history on ONE pitch object (MC_PitchObj)
         LET p == P(e) IN
         /\ e.name = NameStr(p.l, p.a) /\ e.oct = p.o          \* the object is what the setters made it - and nothing else changed it
         /\ (e.kind = "chroma" => e.val = Chroma(p))
         /\ (e.kind = "export" => e.out = Spell(p))
         /\ (e.kind = "transpose" =>
               LET q == RefT(p, IvOfName[e.iv], e.up) IN
               Spellable(q) => (e.ok /\ e.rname = NameStr(q.l, q.a) /\ e.roct = q.o))
    \* ---- beyond the listed properties (bin/extras) ----
    [] e.op = "american_out" ->                               \* kern in, American out
         LET p == P(e)  q == RefT(p, IvOfName[e.iv], e.up) IN Spellable(q) => (e.ok /\ e.out = AmericanSpell(q))
    [] e.op = "american_in"  ->                               \* American in, kern out (unison): the same pitch
         e.inp = AmericanSpell(P(e)) /\ e.ok /\ e.out = Spell(P(e))
    [] e.op = "staffpos"     ->                               \* Staff.position_in_staff / GKernExporter.export / PositionInStaff algebra
         LET st == StaffPos(e.k, P(e)) IN
         /\ e.ok /\ e.ls = st /\ e.txt = PosText(st) /\ e.line = PosLine(st) /\ e.space = PosSpace(st) /\ e.isline = PosIsLine(st)
         /\ e.back = st                                       \* from_line / from_space of the printed number gives the position back
         /\ e.moved = st + e.by /\ e.above = st + 2 /\ e.below = st - 2
         /\ e.lt = (st < e.other)
    [] e.op = "distance"     -> e.ok /\ e.val = Distance(P(e), [l |-> e.l2, a |-> e.a2, o |-> e.o2])
    [] e.op = "compare"      -> e.lt = PitchLess(P(e), [l |-> e.l2, a |-> e.a2, o |-> e.o2]) /\ e.gt = PitchLess([l |-> e.l2, a |-> e.a2, o |-> e.o2], P(e))
    [] OTHER -> FALSE
Init == tid \in 1..Len(Log) /\ l = 1 /\ fails = <<>>
Step == /\ l <= Len(Log[tid]) /\ l' = l + 1 /\ UNCHANGED tid
        /\ fails' = IF Expected(Ev) THEN fails ELSE Append(fails, <<l, Ev.op>>)
Spec == Init /\ [][Step]_<<tid, l, fails>>
Mark == TLCSet(1, [TLCGet(1) EXCEPT ![tid] = IF @.l < l THEN [l |-> l, fails |-> fails] ELSE @])
Verdict == PrintT("VERDICT" \o ToJson([r |-> TLCGet(1)]))
ASSUME TLCSet(1, [t \in 1..Len(Log) |-> [l |-> 0, fails |-> <<>>]])
=============================================================================
