INIT Init
NEXT Next
INVARIANT Agree
INVARIANT LetterAndSound
INVARIANT Inverse
INVARIANT Unison
INVARIANT Octave
INVARIANT FourthFifth
INVARIANT SpellRoundTrip
CHECK_DEADLOCK FALSE
