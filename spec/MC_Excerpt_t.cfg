SPECIFICATION Spec
CONSTANTS
  MaxLines = 8
  MaxLive = 3
INVARIANT NeverStuck
INVARIANT EndsClosed
INVARIANT SameGoverning
CHECK_DEADLOCK FALSE
