------------------------- MODULE MC_ImporterHistory -------------------------
(* All histories of length <= MaxLen over a token alphabet of valid and malformed tokens, for one importer object. *)
EXTENDS ImporterHistory, Json
CONSTANTS MaxLen, Types
L(k, t) == [k |-> k, t |-> t]
Note4c == [k |-> "note", t |-> <<52, 99>>, n |-> [s0 |-> <<>>, s1 |-> <<>>, s2 |-> <<>>, s3 |-> <<>>, dur |-> << <<52>> >>, p |-> <<99>>, rest |-> FALSE, acc |-> <<>>]]
Bar1 == [k |-> "bar", t |-> <<61, 49>>, bar |-> [dbl |-> FALSE, num |-> <<49>>, ab |-> <<>>, hid |-> FALSE, typ |-> <<>>, ferm |-> FALSE, tail |-> <<>>]]
Alphabet == { Note4c, Bar1, L("clef", <<42, 99, 108, 101, 102, 71, 50>>), L("null", <<46>>),
              L("err", <<85, 52, 99>>),        \* U4c   unknown character
              L("err", <<99, 52>>),            \* c4    wrong order
              L("err", <<52>>),                \* 4     truncated
              L("err", <<52, 85, 99>>),        \* 4Uc   inner garbage
              L("err", <<52, 99, 167>>) }      \* 4c§   a character the lexer does not know (a lexer error, not a parser error)
KernTypes == {HKern}
AllTypes == {HKern, HRoot, HText, HDynam, HHarm, HMxhm, HFing, <<42, 42, 122, 122>>}
Init == IHInit(Types)
Next == Len(seen) < MaxLen /\ \E c \in Alphabet : Import(c)
Spec == Init /\ [][Next]_ihVars
\* the outcome of the last call is the outcome the same cell has on a fresh object, whatever came before
OutcomeIndependent == seen # <<>> => outcome = Outcome(ht, seen[Len(seen)])
NothingPending == pending = 0
NonKernNeverFails == ht \notin KernLike => outcome.ok
OnlyLastMatters == [][\A c \in Alphabet : Import(c) => outcome' = Outcome(ht, c)]_ihVars
Emit == IF Len(seen) = MaxLen THEN PrintT("VP" \o ToJson([ht |-> ht, seen |-> seen])) ELSE TRUE
=============================================================================
