---------------------------- MODULE Trace_Values ----------------------------
(* Validates recorded histories of calls on real StoreCache / BoundingBox / DurationClassical / PitchRest objects against   *)
(* Values.tla.  Every event carries the call (op, args), what it returned (ok, v) and the projection of ALL live objects     *)
(* after the call (obs); the specification's action is taken with the logged arguments and both are compared.  Verdicts are  *)
(* total: a differing value is recorded as <<event, clause>> and validation goes on from the specification's state.          *)
EXTENDS Values, TLCExt, Json, IOUtils, SequencesExt
VARIABLES tid, l, fails
Log == JsonDeserialize(IOEnv.TRACE_FILE)
Ev == Log[tid][l]
BoxObs(b) == [fx |-> b[1], fy |-> b[2], tx |-> b[3], ty |-> b[4]]
Act(e) ==
  CASE e.op = "req"    -> Request(e.args[1])
    [] e.op = "newbox" -> NewBox(e.args[1], e.args[2], e.args[3], e.args[4])
    [] e.op = "extend" -> Extend(e.args[1], e.args[2])
    [] e.op = "boxeq"  -> BoxEq(e.args[1], e.args[2])
    [] e.op = "newdur" -> NewDur(e.args[1])
    [] e.op = "modify" -> Modify(e.args[1], e.args[2])
    [] e.op = "cmpdur" -> CmpDur(e.args[1], e.args[2])
    [] e.op = "pitchrest" -> UNCHANGED valVars
    [] OTHER -> FALSE
PitchRestOK(e) ==
  LET p == PRParse(e.t)  q == PRParse(e.u) IN
  /\ e.kind = p[1] /\ (p[1] = 1 => (e.letter = p[2] /\ e.oct = p[3])) /\ e.isrest = (p[1] = 0)
  /\ (p[1] # 2 /\ q[1] # 2) =>
        /\ e.eq = PREq(p, q) /\ e.ne = ~PREq(p, q)
        /\ e.cmpok = (p[1] = 1 /\ q[1] = 1)                           \* a rest does not compare: the call raises
        /\ e.cmpok => (e.gt = PRGt(p, q) /\ e.lt = PRLt(p, q) /\ e.ge = (PRGt(p, q) \/ PREq(p, q)) /\ e.le = (PRLt(p, q) \/ PREq(p, q)))
Clauses(e) ==
  IF e.op = "pitchrest" THEN (IF PitchRestOK(e) THEN <<>> ELSE << <<l, "pitchrest">> >>)
  ELSE (IF e.ok = res'.ok /\ (e.ok => e.v = res'.v) THEN <<>> ELSE << <<l, e.op \o ".result">> >>)
       \o (IF e.obs.mem = mem' /\ e.obs.ncalls = ncalls' THEN <<>> ELSE << <<l, e.op \o ".cache_state">> >>)
       \o (IF Len(e.obs.boxes) = Len(boxes') /\ \A i \in DOMAIN boxes' : BoxObs(e.obs.boxes[i]) = boxes'[i] THEN <<>> ELSE << <<l, e.op \o ".boxes">> >>)
       \o (IF e.obs.durs = durs' THEN <<>> ELSE << <<l, e.op \o ".durations">> >>)
Init == tid \in 1..Len(Log) /\ l = 1 /\ fails = <<>> /\ ValInit
Step == /\ l <= Len(Log[tid]) /\ l' = l + 1 /\ UNCHANGED tid
        /\ Act(Ev)
        /\ fails' = fails \o Clauses(Ev)
Spec == Init /\ [][Step]_<<tid, l, fails, valVars>>
Mark == TLCSet(1, [TLCGet(1) EXCEPT ![tid] = IF @.l < l THEN [l |-> l, fails |-> fails] ELSE @])
Verdict == PrintT("VERDICT" \o ToJson([r |-> TLCGet(1)]))
ASSUME TLCSet(1, [t \in 1..Len(Log) |-> [l |-> 0, fails |-> <<>>]])
=============================================================================
