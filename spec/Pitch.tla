------------------------------- MODULE Pitch -------------------------------
(***************************************************************************)
(* Pitches, named intervals, transposition, Humdrum spelling and the       *)
(* agnostic (staff-position) spelling.  Properties C09, C10, C16 (and the   *)
(* pitch arithmetic used by C15).                                          *)
(*                                                                         *)
(* Two descriptions of transposition are kept apart on purpose:            *)
(*   RefT  - the independent letter / semitone model the property states   *)
(*   T40   - the base-40 DESIGN kernpy uses (tables Chromas / Intervals)   *)
(* TLC checks that the design agrees with the model (MC_Pitch modules), and the *)
(* implementation answers are validated against the model, Trace_Pitch.  *)
(* Text is modelled as sequences of Unicode code points.                   *)
(***************************************************************************)
EXTENDS Integers, Sequences, FiniteSets, TLC

Letters == 0..6                          \* C D E F G A B
Semi == <<0, 2, 4, 5, 7, 9, 11>>         \* semitones of the natural letters above C   (index letter+1)
Base == <<2, 8, 14, 19, 25, 31, 37>>     \* base-40 chroma of the natural letters      (kernpy: Chromas['C'] = 2 ...)
LetterStr == <<"C", "D", "E", "F", "G", "A", "B">>
LowerCp == <<99, 100, 101, 102, 103, 97, 98>>
UpperCp == <<67, 68, 69, 70, 71, 65, 66>>
SHARP == 35   FLAT == 45   NATURAL == 110

RECURSIVE Rep(_, _)
Rep(x, n) == IF n <= 0 THEN <<>> ELSE <<x>> \o Rep(x, n - 1)
RECURSIVE RepStr(_, _)
RepStr(s, n) == IF n <= 0 THEN "" ELSE s \o RepStr(s, n - 1)
Abs(x) == IF x < 0 THEN -x ELSE x

Pitch(l, a, o) == [l |-> l, a |-> a, o |-> o]
NoPitch == [l |-> -1, a |-> 0, o |-> 0]

(* ------------------------- named intervals ----------------------------- *)
Perfect == {1, 4, 5}
Quals(n) == IF n \in Perfect THEN {"dd", "d", "P", "A", "AA"} ELSE {"dd", "d", "m", "M", "A", "AA"}
QOff(q, n) == IF n \in Perfect
              THEN CASE q = "dd" -> -2 [] q = "d" -> -1 [] q = "P" -> 0 [] q = "A" -> 1 [] q = "AA" -> 2
              ELSE CASE q = "dd" -> -3 [] q = "d" -> -2 [] q = "m" -> -1 [] q = "M" -> 0 [] q = "A" -> 1 [] q = "AA" -> 2
Intervals == {iv \in {"dd", "d", "m", "M", "P", "A", "AA"} \X (1..7) : iv[1] \in Quals(iv[2])} \cup {<<"P", 8>>}
IvName(iv) == IF iv[2] = 8 THEN "octave" ELSE iv[1] \o ToString(iv[2])       \* kernpy's names: 'm3', 'AA4', 'octave'
IvNames == {IvName(iv) : iv \in Intervals}
IvOfName == [n \in IvNames |-> CHOOSE iv \in Intervals : IvName(iv) = n]
Steps(iv) == iv[2] - 1                                                         \* diatonic size
Semis(iv) == IF iv[2] = 8 THEN 12 ELSE Semi[iv[2]] + QOff(iv[1], iv[2])       \* semitone size
\* the base-40 number the design assigns to a named interval (transposer.Intervals inverted)
I40(iv) == IF iv[2] = 8 THEN 40 ELSE (Base[iv[2]] - 2) + QOff(iv[1], iv[2])

(* ------------------------------ pitches -------------------------------- *)
Midi(p) == 12 * p.o + Semi[p.l + 1] + p.a
Chroma(p) == 40 * p.o + Base[p.l + 1] + p.a
Dia(p) == 7 * p.o + p.l                                                        \* diatonic index

\* reference transposition: move the letter by the diatonic size, the sounding pitch by the semitone size
RefT(p, iv, up) ==
  LET s  == IF up THEN 1 ELSE -1
      li == p.l + s * Steps(iv)
      nl == li % 7
      no == p.o + (li \div 7)
      na == (Midi(p) + s * Semis(iv)) - (12 * no + Semi[nl + 1])
  IN [l |-> nl, a |-> na, o |-> no]
Spellable(q) == q.a \in -2..2

\* base-40 design: add the number, read the name back from the table.  The table has 39 entries: index 22 is
\* unused, and indices 5, 11, 28, 34 hold the triple flats D---, E---, A---, B---
TableName(c) ==
  LET cands == {<<l, a>> \in Letters \X (-3..2) : Base[l + 1] + a = c /\ (a = -3 => l \in {1, 2, 5, 6})} IN
  IF c = 22 \/ cands = {} THEN <<-1, 0>>
  ELSE CHOOSE x \in cands : \A y \in cands : x[2] >= y[2]
TableNameT == [c \in 0..39 |-> TableName(c)]          \* constant: evaluated once
T40(p, iv, up) ==
  LET c == Chroma(p) + (IF up THEN I40(iv) ELSE -I40(iv))
      n == TableNameT[c % 40]
  IN [l |-> n[1], a |-> n[2], o |-> c \div 40]

(* --------------------------- Humdrum spelling -------------------------- *)
AccCps(a) == IF a > 0 THEN Rep(SHARP, a) ELSE Rep(FLAT, -a)
LetterCps(l, o) == IF o >= 4 THEN Rep(LowerCp[l + 1], o - 3) ELSE Rep(UpperCp[l + 1], 4 - o)
Spell(p) == LetterCps(p.l, p.o) \o AccCps(p.a)
NameStr(l, a) == LetterStr[l + 1] \o (IF a >= 0 THEN RepStr("+", a) ELSE RepStr("-", -a))   \* AgnosticPitch.name

\* reading a spelling back (independent of Spell: counts characters)
IsLower(c) == c \in 97..103
IsUpper(c) == c \in 65..71
LetterOfCp(c) == CHOOSE l \in Letters : LowerCp[l + 1] = c \/ UpperCp[l + 1] = c
Count(s, x) == Cardinality({i \in DOMAIN s : s[i] = x})
Unspell(s) ==
  LET n == Cardinality({i \in DOMAIN s : IsLower(s[i]) \/ IsUpper(s[i])})
  IN [l |-> LetterOfCp(s[1]),
      a |-> Count(s, SHARP) - Count(s, FLAT),
      o |-> IF IsLower(s[1]) THEN 3 + n ELSE 4 - n]

(* ------------- American notation, semitone distance, ordering (not covered by a listed property) ------------- *)
RECURSIVE DigitsOf(_)
DigitsOf(n) == IF n < 10 THEN <<48 + n>> ELSE DigitsOf(n \div 10) \o <<48 + (n % 10)>>
IntCps(n) == IF n < 0 THEN <<45>> \o DigitsOf(-n) ELSE DigitsOf(n)
AmericanSpell(p) == <<UpperCp[p.l + 1]>> \o (IF p.a > 0 THEN Rep(SHARP, p.a) ELSE Rep(98, -p.a)) \o IntCps(p.o)      \* C#4, Bb3
Distance(p, q) == Midi(q) - Midi(p)                                   \* semitones from p up to q
PitchLess(p, q) == p.o < q.o \/ (p.o = q.o /\ Base[p.l + 1] + p.a < Base[q.l + 1] + q.a)       \* octave first, then base-40 chroma

(* -------------------- agnostic (staff position) spelling ---------------- *)
\* bottom-line pitch per clef: the table pinned by the repository's passing tests (DESIGN.md, I4)
ClefKinds == {"G2", "F3", "F4", "C1", "C2", "C3", "C4"}
ClefBottom(k) == CASE k = "G2" -> [l |-> 2, o |-> 4]     \* E4
                   [] k = "F3" -> [l |-> 6, o |-> 3]     \* B3
                   [] k = "F4" -> [l |-> 4, o |-> 2]     \* G2
                   [] k = "C1" -> [l |-> 0, o |-> 3]     \* C3
                   [] k = "C2" -> [l |-> 5, o |-> 2]     \* A2
                   [] k = "C3" -> [l |-> 6, o |-> 2]     \* B2
                   [] k = "C4" -> [l |-> 1, o |-> 2]     \* D2
ClefMarks == {<<>>, <<118>>, <<118, 118>>, <<94>>, <<94, 94>>}       \* none v vv ^ ^^
ClefSignCp(k) == CASE k = "G2" -> 71 [] k \in {"F3", "F4"} -> 70 [] OTHER -> 67
ClefLineCp(k) == CASE k \in {"C1"} -> 49 [] k \in {"G2", "C2"} -> 50 [] k \in {"F3", "C3"} -> 51 [] OTHER -> 52
ClefText(k, mark) == <<42, 99, 108, 101, 102>> \o <<ClefSignCp(k)>> \o mark \o <<ClefLineCp(k)>>   \* *clef<S><marks><line>
\* the clef kind named by a clef token text (the sign letter and the line digit; octave marks are ignored)
ClefKindOfText(t) ==
  LET sign == CHOOSE c \in {67, 70, 71} : \E i \in DOMAIN t : t[i] = c /\ \A j \in 1..(i-1) : t[j] \notin {67, 70, 71}
      digs == {i \in DOMAIN t : t[i] \in 48..57}
      line == IF digs = {} THEN 0 ELSE t[CHOOSE i \in digs : \A j \in digs : i <= j] - 48
  IN IF sign = 71 THEN "G2"
     ELSE IF sign = 70 THEN (IF line = 3 THEN "F3" ELSE IF line = 4 THEN "F4" ELSE "BAD")
     ELSE (IF line \in 1..4 THEN CASE line = 1 -> "C1" [] line = 2 -> "C2" [] line = 3 -> "C3" [] line = 4 -> "C4" ELSE "BAD")
StaffPos(k, p) == 7 * (p.o - ClefBottom(k).o) + (p.l - ClefBottom(k).l)        \* 0 = bottom line, 1 = first space ...
\* the pitch letters occupying staff position s under a G2 clef (whose bottom line is E4)
G2Letters(s) == LET d == (7 * 4 + 2) + s IN LetterCps(d % 7, d \div 7)
AgnosticLetters(k, p) == G2Letters(StaffPos(k, p))
Agnostic(k, p) == AgnosticLetters(k, p) \o AccCps(p.a)
\* the graphic position itself (PositionInStaff): 0 = bottom line, odd = spaces; line number = s/2 + 1, space number = (s-1)/2 + 1
\* (floor division: ledger lines and spaces below the staff count downwards), written T@<line> / S@<space>
PosLine(s) == (s \div 2) + 1
PosSpace(s) == ((s - 1) \div 2) + 1
PosIsLine(s) == s % 2 = 0
PosText(s) == IF PosIsLine(s) THEN <<84, 64>> \o IntCps(PosLine(s)) ELSE <<83, 64>> \o IntCps(PosSpace(s))
=============================================================================
