SPECIFICATION Spec
CONSTANTS
  MaxLines = 6
  MaxLive = 3
  UseImpl = FALSE
  EqualKinds = FALSE
INVARIANT NeverStuck
INVARIANT EndsClosed
INVARIANT SameGoverning
CHECK_DEADLOCK FALSE
