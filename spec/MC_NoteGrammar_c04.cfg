SPECIFICATION Spec
CONSTANTS
  MaxSig = 1
  Sigs = {94,39,115,34,96,126,116,76,74,75,107,88,59,58,91,93,95,77,109,123,125,40,41,47,92,83,36,105,78,106,90,79,108,86}
INVARIANT ExtendedStripsToPlain
INVARIANT BasicDropsSignifiers
CHECK_DEADLOCK FALSE
