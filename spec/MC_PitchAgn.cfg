INIT Init
NEXT Next
INVARIANT G2Identity
INVARIANT Translation
INVARIANT BottomLineIsE
INVARIANT AccidentalCarried
INVARIANT OctaveMarkIrrelevant
INVARIANT SamePositionSameSpelling
CHECK_DEADLOCK FALSE
