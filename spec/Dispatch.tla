------------------------------ MODULE Dispatch ------------------------------
(***************************************************************************)
(* Which token category a cell gets, as a function of the type of the      *)
(* spine it descends from and the class of the cell (property C18, and the *)
(* basis of the measure rule, the category gate and the listings).         *)
(* Cell classes (field k of a cell):                                       *)
(*   hdr gcom fcom split join term add exch  decided by the row importer    *)
(*   bar null nulli clef keysig timesig meter staff bbox   SHARED: read    *)
(*                      identically under every spine type                 *)
(*   note chord octx tandem visual err    kern-only classes                *)
(*   text                                 free text of a non-kern spine    *)
(***************************************************************************)
EXTENDS Categories, Sequences

HKern == <<42, 42, 107, 101, 114, 110>>      HText == <<42, 42, 116, 101, 120, 116>>
HHarm == <<42, 42, 104, 97, 114, 109>>       HMxhm == <<42, 42, 109, 120, 104, 109>>
HRoot == <<42, 42, 114, 111, 111, 116>>      HDyn == <<42, 42, 100, 121, 110>>
HDynam == <<42, 42, 100, 121, 110, 97, 109>> HFing == <<42, 42, 102, 105, 110, 103>>
HMens == <<42, 42, 109, 101, 110, 115>>
KnownHeaders == {HKern, HText, HHarm, HMxhm, HRoot, HDyn, HDynam, HFing, HMens}   \* tokens.HEADERS: default spine_types
KernLike == {HKern, HRoot}                    \* spine types whose cells are parsed as **kern tokens

OpClasses == {"split", "join", "term", "add"}     \* *^ *v *- *+ (the exchange operator *x is not supported: Unsupported)
TwiceClasses == {"split", "add"}                   \* operators after which the path continues twice
SharedClasses == {"bar", "null", "nulli", "clef", "keysig", "timesig", "meter", "staff", "bbox"}
SigClasses == {"clef", "keysig", "timesig", "meter"}        \* cells that become SignatureToken objects

KernCat(k) == CASE k = "note" -> "NOTE_REST" [] k = "chord" -> "CHORD" [] k \in {"null", "nulli"} -> "EMPTY"
                [] k = "bar" -> "BARLINES" [] k = "clef" -> "CLEF" [] k = "keysig" -> "KEY_SIGNATURE"
                [] k = "timesig" -> "TIME_SIGNATURE" [] k = "meter" -> "METER_SYMBOL" [] k = "staff" -> "STRUCTURAL"
                [] k = "bbox" -> "BOUNDING_BOXES" [] k = "octx" -> "OTHER_CONTEXTUAL" [] k = "tandem" -> "OTHER"
                [] k = "visual" -> "ENGRAVED_SYMBOLS" [] k = "err" -> "ERROR" [] OTHER -> "NONE"
OwnCat(ht) == CASE ht = HText -> "LYRICS" [] ht \in {HDynam, HDyn} -> "DYNAMICS" [] ht \in {HHarm, HMxhm} -> "HARMONY"
                [] ht = HFing -> "FINGERING" [] OTHER -> "OTHER"
CatOf(ht, k) == CASE k = "hdr" -> "HEADER"
                  [] k \in OpClasses -> "SPINE_OPERATION"
                  [] k = "fcom" -> "FIELD_COMMENTS"
                  [] k = "gcom" -> "LINE_COMMENTS"
                  [] ht \in KernLike -> KernCat(k)
                  [] k \in SharedClasses -> KernCat(k)
                  [] OTHER -> OwnCat(ht)
\* is the token of such a cell a note/rest object (exported sub-token by sub-token, never gated as a whole)?
IsNoteObject(ht, k) == ht \in KernLike /\ k = "note"
IsChordObject(ht, k) == ht \in KernLike /\ k = "chord"
CoreCats == SubT["CORE"]
SignatureCats == SubT["SIGNATURES"]
=============================================================================
