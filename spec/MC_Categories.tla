--------------------------- MODULE MC_Categories ---------------------------
(* Bounded instance for C11 on the model: every include/exclude pair of sets of size <= MaxSet. *)
EXTENDS Categories
CONSTANT MaxSet
VARIABLES inc, exc
Small == {{}} \cup {{a} : a \in Cat} \cup (IF MaxSet >= 2 THEN {{a, b} : a \in Cat, b \in Cat} ELSE {})
Init == inc \in Small /\ exc \in Small
Next == UNCHANGED <<inc, exc>>
InvForest == Forest
InvClosures == ClosuresAgree(inc) /\ ClosuresAgree(exc)
InvValid == ValidLaws(inc, exc)
InvTree == /\ \A i \in 1..NCat : Parent[Pre[i][2]] = (IF ParentIdx(i) = 0 THEN NoCat ELSE Pre[ParentIdx(i)][2])
           /\ \A c \in Cat : Leaves(c) \subseteq Nodes(c) /\ (IsLeaf(c) <=> Nodes(c) = {})
           /\ UNION {SubT[c] : c \in {d \in Cat : Parent[d] = NoCat}} = Cat
=============================================================================
