------------------------------ MODULE Transform ------------------------------
(***************************************************************************)
(* Documents as VALUES and the two operations that make new documents:     *)
(* transposition (C15) and concatenation of fragments (C19).               *)
(* A document value is the `stages` component of a SpinePaths state; the   *)
(* exporter for a given value is obtained by instantiating Export with      *)
(* that value substituted for the variable.                                *)
(***************************************************************************)
EXTENDS ExcerptImpl

\* the exporter / queries applied to another document value
On(st, ms) == INSTANCE Queries WITH stages <- st, mstarts <- ms

(* ------------------------------ transposition --------------------------- *)
AccSigns(acc) == SelectSeq(acc, LAMBDA c : c = SHARP \/ c = FLAT)          \* the sharps / flats of an accidental sub-token
PitchOfNote(n) == Unspell(n.p \o AccSigns(n.acc))
TransposedNote(n, iv, up) ==
  IF n.rest THEN n
  ELSE LET q == RefT(PitchOfNote(n), iv, up) IN
       [n EXCEPT !.p = LetterCps(q.l, q.o), !.acc = AccCps(q.a)]
NoteSpellable(n, iv, up) == n.rest \/ Spellable(RefT(PitchOfNote(n), iv, up))
TransposedCell(ht, c, iv, up) ==
  IF ht # HKern THEN c                                             \* non-kern spines are left alone
  ELSE IF c.k = "note" THEN LET m == TransposedNote(c.n, iv, up) IN [c EXCEPT !.n = m, !.t = NoteText(m)]
  ELSE IF c.k = "chord" THEN LET ms == [i \in 1..Len(c.ns) |-> TransposedNote(c.ns[i], iv, up)] IN [c EXCEPT !.ns = ms, !.t = ChordText(ms)]
  ELSE c
TypeIn(st, n) == st[n.hdr[1]][n.hdr[2]].cell.t
TransposedOf(st, iv, up) ==
  [s \in 1..Len(st) |-> [i \in 1..Len(st[s]) |->
      LET n == st[s][i] IN
      IF n.hdr = NoPtr \/ s = 1 THEN n ELSE [n EXCEPT !.cell = TransposedCell(TypeIn(st, n), n.cell, iv, up)]]]
TransposedStages(iv, up) == TransposedOf(stages, iv, up)
AllSpellable(iv, up) ==
  \A s \in 2..Len(stages) : \A i \in 1..Len(stages[s]) :
     LET n == stages[s][i] IN
     (n.hdr # NoPtr /\ TypeOf(n) = HKern) =>
        (CASE n.cell.k = "note" -> NoteSpellable(n.cell.n, iv, up)
           [] n.cell.k = "chord" -> \A j \in 1..Len(n.cell.ns) : NoteSpellable(n.cell.ns[j], iv, up)
           [] OTHER -> TRUE)
(* ------------------------------ concatenation --------------------------- *)
\* fragments = consecutive groups of lines; ends[i] = stage of the last line of fragment i.  The document is the import of the
\* joined lines; pair i = (0 or measures before the fragment + 1, measures up to the end of the fragment)
\* stated over a measure index ms (a sequence of stage numbers): the specification's own mstarts on the model; the index the
\* implementation reports when a recorded run is judged (whether THAT index is right is C07's statement, not C19's)
MeasuresThroughIn(ms, st) == Cardinality({j \in 1..Len(ms) : ms[j] <= st})
ConcatPairsIn(ms, ends) == [i \in 1..Len(ends) |-> <<(IF i = 1 THEN 0 ELSE MeasuresThroughIn(ms, ends[i - 1]) + 1), MeasuresThroughIn(ms, ends[i])>>]
ConcatPairs(ends) == ConcatPairsIn(mstarts, ends)
\* what exporting from_measure = lo, to_measure = hi covers (from_measure = 0 means "from the start")
PairFirstStage(lo) == IF lo = 0 THEN 2 ELSE mstarts[lo]
PairLastStage(hi) == IF hi < Len(mstarts) THEN mstarts[hi + 1] ELSE Len(stages)
PairData(pair, o) == DataLines(GridFrom(PairFirstStage(pair[1]), PairLastStage(pair[2]), o))
FragmentDataLines(ends, i, o) == DataLines(GridFrom((IF i = 1 THEN 2 ELSE ends[i - 1] + 1), ends[i], o))

TransposedGrid(iv, up, o) == On(TransposedStages(iv, up), mstarts)!ExportGrid(o)
=============================================================================
