SPECIFICATION SSpec
CONSTANTS
  NCalls = 30
  MaxLen = 3
INVARIANT NeverTouched
PROPERTY ReadOnly
CHECK_DEADLOCK FALSE
