SPECIFICATION SSpec
CONSTANTS
  NCalls = 32
  MaxLen = 3
INVARIANT NeverTouched
PROPERTY ReadOnly
CHECK_DEADLOCK FALSE
