---------------------------- MODULE PitchInd ----------------------------
(* Apalache: the letter / semitone model of transposition for EVERY octave (unbounded integer), not only 0..8:        *)
(* RefT moves the diatonic index by the diatonic size and the sounding pitch by the semitone size, and transposing    *)
(* back returns the original pitch.  Intervals are given by (number 1..8, quality offset -3..2).                      *)
EXTENDS Integers, Sequences
VARIABLES
  \* @type: Int;
  l,
  \* @type: Int;
  a,
  \* @type: Int;
  o,
  \* @type: Int;
  num,
  \* @type: Int;
  off,
  \* @type: Bool;
  up
\* @type: Seq(Int);
Semi == <<0, 2, 4, 5, 7, 9, 11>>
Steps == num - 1
Semis == IF num = 8 THEN 12 ELSE Semi[num] + off
Midi(pl, pa, po) == 12 * po + Semi[pl + 1] + pa
\* the reference transposition, as in Pitch!RefT
S == IF up THEN 1 ELSE -1
Li == l + S * Steps
Nl == Li % 7
No == o + (Li \div 7)
Na == (Midi(l, a, o) + S * Semis) - (12 * No + Semi[Nl + 1])
\* and back
Li2 == Nl - S * Steps
Bl == Li2 % 7
Bo == No + (Li2 \div 7)
Ba == (Midi(Nl, Na, No) - S * Semis) - (12 * Bo + Semi[Bl + 1])
Init == /\ l \in 0..6 /\ a \in -2..2 /\ o \in Int /\ num \in 1..8 /\ up \in BOOLEAN
        /\ off \in -3..2 /\ (num = 8 => off = 0) /\ (num \in {1, 4, 5} => off \in -2..2)
Next == UNCHANGED <<l, a, o, num, off, up>>
LetterAndSound == /\ 7 * No + Nl = (7 * o + l) + S * Steps
                  /\ Midi(Nl, Na, No) = Midi(l, a, o) + S * Semis
Inverse == Bl = l /\ Ba = a /\ Bo = o
Inv == LetterAndSound /\ Inverse
=========================================================================
