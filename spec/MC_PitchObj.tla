----------------------------- MODULE MC_PitchObj -----------------------------
(***************************************************************************)
(* C09 (and C16's "never alters the pitch object") on a pitch OBJECT with   *)
(* a history: one AgnosticPitch is created, re-named and moved to other     *)
(* octaves through its setters, asked for its chroma, transposed (which     *)
(* yields a NEW pitch and leaves the object alone) and exported - in any    *)
(* order.  Whatever happened before, a transposition is the interval        *)
(* arithmetic applied to the object's CURRENT letter, alteration and octave.*)
(* TLC enumerates / simulates the histories; the harness replays each on    *)
(* one real object and TLC validates the record of every step (Trace_Pitch  *)
(* "objstep").                                                             *)
(***************************************************************************)
EXTENDS Pitch, Json
CONSTANT MaxLen
VARIABLES obj, hist
vars == <<obj, hist>>
\* a small family of values for the setters (boundaries of the tables: B##, C--, octave 0 and 8)
Names == {<<0, 0>>, <<0, -2>>, <<6, 2>>, <<3, 1>>, <<2, -1>>, <<5, 0>>}
Octs == {0, 3, 4, 8}
Ivs == {<<"P", 1>>, <<"m", 2>>, <<"M", 3>>, <<"A", 4>>, <<"d", 5>>, <<"P", 8>>, <<"d", 1>>, <<"AA", 7>>}
Step(op, args) == hist' = Append(hist, [op |-> op, args |-> args, l |-> obj'.l, a |-> obj'.a, o |-> obj'.o])
Init == obj \in {[l |-> n[1], a |-> n[2], o |-> o] : n \in Names, o \in {4}} /\ hist = <<[op |-> "new", args |-> <<>>, l |-> obj.l, a |-> obj.a, o |-> obj.o]>>
SetName(n) == obj' = [obj EXCEPT !.l = n[1], !.a = n[2]] /\ Step("setname", <<n[1], n[2]>>)
SetOct(o) == obj' = [obj EXCEPT !.o = o] /\ Step("setoct", <<o>>)
GetChroma == UNCHANGED obj /\ Step("chroma", <<>>)
Transpose(iv, up) == UNCHANGED obj /\ Step("transpose", <<IvName(iv), up>>)      \* a new pitch; the object is not touched
Export == UNCHANGED obj /\ Step("export", <<>>)
Next == /\ Len(hist) < MaxLen
        /\ \/ \E n \in Names : SetName(n)
           \/ \E o \in Octs : SetOct(o)
           \/ GetChroma \/ Export
           \/ \E iv \in Ivs, up \in BOOLEAN : Transpose(iv, up)
Spec == Init /\ [][Next]_vars
\* the record of every step carries the state the step left behind: what a replay must observe on the real object
HistoryTracksObject == LET h == hist[Len(hist)] IN h.l = obj.l /\ h.a = obj.a /\ h.o = obj.o
ReadsArePure == [][(\E k \in {"chroma", "transpose", "export"} : hist'[Len(hist')].op = k) => obj' = obj]_vars
Emit == IF Len(hist) = MaxLen THEN PrintT("VP" \o ToJson([hist |-> hist])) ELSE TRUE
=============================================================================
