SPECIFICATION SSpec
CONSTANTS
  NCalls = 32
  MaxLen = 12
CONSTRAINT Emit
INVARIANT NeverTouched
CHECK_DEADLOCK FALSE
