SPECIFICATION SSpec
CONSTANTS
  NCalls = 30
  MaxLen = 12
CONSTRAINT Emit
INVARIANT NeverTouched
CHECK_DEADLOCK FALSE
